// C15: every OpenMP stage run with several thread counts under ThreadSanitizer (+Archer) and compared with its
// single-threaded result; harness callbacks inject seeded delays inside the parallel loops and record which thread
// served which iteration and in which global order iterations started.
#include "common/callbacks.hpp"
#include "common/refs.hpp"
#include <omp.h>
#include <tapkee/neighbors/neighbors.hpp>
#include <tapkee/routines/diffusion_maps.hpp>
#include <tapkee/routines/isomap.hpp>
#include <tapkee/routines/landmarks.hpp>
#include <tapkee/routines/locally_linear.hpp>
#include <tapkee/routines/multidimensional_scaling.hpp>
#include <thread>
#ifdef VERIF_WITH_CLI
#include <util.hpp>
#endif

using namespace vh;
using namespace tapkee;
using namespace tapkee::tapkee_internal;

namespace
{
typedef std::vector<int>::iterator It;

// records, per outer iteration (first argument of the callback), the thread that first served it and a global sequence number
struct Recorder
{
    std::vector<std::atomic<int>> thread_of;
    std::vector<std::atomic<long>> seq_of;
    std::atomic<long> seq{0};
    uint64_t delay_seed = 0;
    bool delays = false;
    explicit Recorder(int n) : thread_of(n), seq_of(n)
    {
        reset();
    }
    void reset()
    {
        for (auto& t : thread_of)
            t.store(-1);
        for (auto& s : seq_of)
            s.store(-1);
        seq.store(0);
    }
    void touch(int outer, int inner)
    {
        int expected = -1;
        if (thread_of[outer].compare_exchange_strong(expected, omp_get_thread_num()))
            seq_of[outer].store(seq.fetch_add(1));
        if (delays)
        {
            // seeded, thread-dependent spin / yield inside the parallel loop body
            uint64_t h = (delay_seed + 0x9E3779B97F4A7C15ull * (uint64_t)(outer * 1315423911u + inner * 2654435761u + omp_get_thread_num() * 97u));
            h ^= h >> 29;
            h *= 0xBF58476D1CE4E5B9ull;
            h ^= h >> 32;
            if ((h & 15) == 0)
                std::this_thread::yield();
            else if ((h & 15) < 3)
            {
                volatile int sink = 0;
                for (int q = 0; q < (int)((h >> 8) & 1023); ++q)
                    sink += q;
            }
        }
    }
    uint64_t map_hash() const
    {
        uint64_t h = 1469598103934665603ull;
        for (auto& t : thread_of)
        {
            h ^= (uint64_t)(t.load() + 2);
            h *= 1099511628211ull;
        }
        return h;
    }
    uint64_t order_hash() const
    {
        uint64_t h = 1469598103934665603ull;
        for (auto& s : seq_of)
        {
            h ^= (uint64_t)(s.load() + 2);
            h *= 1099511628211ull;
        }
        return h;
    }
    int threads_seen() const
    {
        std::set<int> s;
        for (auto& t : thread_of)
            if (t.load() >= 0)
                s.insert(t.load());
        return (int)s.size();
    }
};

struct RK
{
    MatrixCallbacks* c;
    Recorder* rec;
    double kernel(int a, int b) const
    {
        rec->touch(a, b);
        return c->kval(a, b);
    }
    double operator()(int a, int b) const
    {
        return kernel(a, b);
    }
};
struct RD
{
    MatrixCallbacks* c;
    Recorder* rec;
    double distance(int a, int b) const
    {
        rec->touch(a, b);
        return c->dval(a, b);
    }
    double operator()(int a, int b) const
    {
        return distance(a, b);
    }
};

#ifdef TAPKEE_USE_FIBONACCI_HEAP
const char* BACKEND = "fh";
#else
const char* BACKEND = "pq";
#endif

Mat run_stage(const std::string& stage, const Case& c, Mat& X, std::vector<int>& idx, Neighbors& nbK, Neighbors& nbD, Landmarks& lm, Recorder& rec)
{
    MatrixCallbacks cb(X);
    RK rk{&cb, &rec};
    RD rd{&cb, &rec};
    int td = (int)c.i("td", 2);
    if (stage == "dist")
        return compute_distance_matrix(idx.begin(), idx.end(), rd);
    if (stage == "dist_lm")
        return compute_distance_matrix(idx.begin(), idx.end(), lm, rd);
    if (stage == "geo")
        return compute_shortest_distances_matrix(idx.begin(), idx.end(), nbD, rd);
    if (stage == "geo_lm")
        return compute_shortest_distances_matrix(idx.begin(), idx.end(), lm, nbD, rd);
    if (stage == "lle")
        return Mat(linear_weight_matrix(idx.begin(), idx.end(), nbK, rk, 1e-9, 1e-3));
    if (stage == "ltsa")
        return Mat(tangent_weight_matrix(idx.begin(), idx.end(), nbK, rk, td, 1e-9));
    if (stage == "hlle")
        return Mat(hessian_weight_matrix(idx.begin(), idx.end(), nbK, rk, td));
    if (stage == "dm")
        return compute_diffusion_matrix(idx.begin(), idx.end(), rd, c.d("width", 2.0));
    if (stage == "tri")
    {
        // landmark embedding from a plain eigendecomposition of the landmark distance matrix (single-threaded part)
        MatrixCallbacks cb2(X);
        int L = (int)lm.size();
        Mat D2(L, L);
        for (int a = 0; a < L; ++a)
            for (int b = 0; b < L; ++b)
                D2(a, b) = std::pow(cb2.dval(lm[a], lm[b]), 2);
        DenseVector mean2 = D2.colwise().mean();
        Spectrum sp = sym_eig_desc(-0.5 * double_center(D2));
        EigendecompositionResult le;
        le.first = sp.vecs.leftCols(td);
        le.second = sp.vals.head(td);
        for (int j = 0; j < td; ++j)
            le.first.col(j) *= std::sqrt(std::max(0.0, sp.vals(j)));
        return triangulate(idx.begin(), idx.end(), rd, lm, mean2, le, td);
    }
#ifdef VERIF_WITH_CLI
    if (stage == "cli")
        return matrix_from_callback((IndexType)idx.size(), rd);
#endif
    fprintf(stderr, "unknown stage %s\n", stage.c_str());
    exit(2);
}

void run_stage_case(const Case& c, Result& r)
{
    Mat X = make_data(c);
    int N = (int)X.cols();
    std::string stage = c.s("stage");
    int threads = (int)c.i("threads", 4);
    std::vector<int> idx = iota_indices(N);
    // neighbour lists and landmarks (single-threaded preparation)
    omp_set_num_threads(1);
    MatrixCallbacks cb(X);
    Recorder rec(N);
    Neighbors nbK, nbD;
    {
        struct K0
        {
            MatrixCallbacks* c;
            double kernel(int a, int b) const
            {
                return c->kval(a, b);
            }
        } k0{&cb};
        struct D0
        {
            MatrixCallbacks* c;
            double distance(int a, int b) const
            {
                return c->dval(a, b);
            }
        } d0{&cb};
        std::srand(5);
        int k = (int)c.i("k", 8);
        nbK = find_neighbors(Brute, idx.begin(), idx.end(), KernelDistance<It, K0>(k0), k, false);
        nbD = find_neighbors(Brute, idx.begin(), idx.end(), PlainDistance<It, D0>(d0), k, false);
    }
    Landmarks lm;
    {
        Rng g((uint64_t)c.i("dseed", 1) + 3);
        lm = idx;
        g.shuffle(lm);
        lm.resize(std::max(4, N / 2));
    }
    // single-threaded reference
    rec.delays = false;
    Mat R1 = run_stage(stage, c, X, idx, nbK, nbD, lm, rec);
    // parallel run with injected delays
    omp_set_num_threads(threads);
    rec.reset();
    rec.delays = c.i("delays", 1) != 0;
    rec.delay_seed = (uint64_t)c.i("delay_seed", 1);
    Mat Rp = run_stage(stage, c, X, idx, nbK, nbD, lm, rec);
    omp_set_num_threads(1);
    if (Rp.rows() != R1.rows() || Rp.cols() != R1.cols())
    {
        r.violation(stage + ":shape-depends-on-threads", "result shape differs");
        return;
    }
    // entries at the "infinite" sentinel (unreachable pairs) must be bitwise equal; the others agree relative to the largest finite one
    double scale = 1e-300;
    for (int i = 0; i < R1.size(); ++i)
        if (std::fabs(R1.data()[i]) < 1e300)
            scale = std::max(scale, std::fabs(R1.data()[i]));
    auto deviation = [&](const Mat& Rq) {
        double dv = 0;
        if (Rq.rows() != R1.rows() || Rq.cols() != R1.cols())
            return 1.0;
        for (int i = 0; i < R1.size(); ++i)
        {
            double a = R1.data()[i], b = Rq.data()[i];
            if (std::fabs(a) >= 1e300 || std::fabs(b) >= 1e300 || !std::isfinite(a) || !std::isfinite(b))
            {
                if (!(a == b) && !(std::isnan(a) && std::isnan(b)))
                    dv = std::max(dv, 1.0);
            }
            else
                dv = std::max(dv, std::fabs(a - b) / scale);
        }
        return dv;
    };
    double dev = deviation(Rp);
    r.maxnum("dev", dev);
    if (c.i("nested", 0))
    {
        // The stage called from inside the application's own parallel region, by one of its two threads (the other one idles:
        // concurrent callers would be a re-entrancy claim the property does not make, and the debug-only allocation guard
        // RESTRICT_ALLOC is a process-wide flag). Nested parallelism is off by default, so every region inside the library
        // runs with a team of ONE thread while omp_get_max_threads() still reports `threads`: the team is smaller than the bound.
        omp_set_num_threads(threads);
        Mat Ra, Rb;
        Recorder reca(N), recb(N);
        reca.delays = recb.delays = true;
        reca.delay_seed = rec.delay_seed + 1;
        recb.delay_seed = rec.delay_seed + 2;
        int inner_bound[2] = {0, 0};
#pragma omp parallel num_threads(2)
        {
            int me = omp_get_thread_num();
            inner_bound[me & 1] = omp_get_max_threads();
            if (me == 1 || omp_get_num_threads() == 1)
                Ra = run_stage(stage, c, X, idx, nbK, nbD, lm, reca);
        }
        (void)recb;
        omp_set_num_threads(1);
        double dn = std::max(deviation(Ra), Rb.size() ? deviation(Rb) : 0.0);
        r.maxnum("dev_nested", dn);
        r.num["nested_thread_bound"] = inner_bound[0];
        r.addnum("nested_calls", Rb.size() ? 2 : 1);
        if (!(dn <= 1e-10))
            r.violation(sf("%s:%s:result-depends-on-team-size", stage.c_str(), BACKEND),
                        sf("called from inside a parallel region of the application (inner team of 1, thread bound %d): max relative entry difference "
                           "%.3g from the single-threaded result",
                           inner_bound[0], dn));
    }
    if (!(dev <= 1e-10))
        r.violation(sf("%s:%s:result-depends-on-thread-count", stage.c_str(), BACKEND),
                    sf("%d threads vs 1 thread: max relative entry difference %.3g", threads, dev));
    r.str["map"] = sf("%016llx", (unsigned long long)rec.map_hash());
    r.str["order"] = sf("%016llx", (unsigned long long)rec.order_hash());
    r.num["threads_seen"] = rec.threads_seen();
    r.num["threads"] = threads;
    r.nontrivial = rec.threads_seen() >= 2 || threads == 1;
    r.tags.push_back(sf("%s:%s", stage.c_str(), BACKEND));
}

void run_e2e_case(const Case& c, Result& r)
{
    // end-to-end through the public API: thread count must not change the embedding beyond the conditioning of the problem
    Mat X = make_data(c);
    int N = (int)X.cols();
    std::vector<int> idx = iota_indices(N);
    int threads = (int)c.i("threads", 4);
    MatrixCallbacks cb(X);
    configure_callbacks(cb, c);
    uint64_t dseed = (uint64_t)c.i("delay_seed", 1);
    cb.on_call = [dseed](int a, int b) {
        uint64_t h = dseed + 0x9E3779B97F4A7C15ull * (uint64_t)(a * 1315423911u + b * 2654435761u + omp_get_thread_num() * 97u);
        h ^= h >> 31;
        if ((h & 31) == 0)
            std::this_thread::yield();
    };
    omp_set_num_threads(1);
    std::srand((unsigned)c.i("srand", 1));
    tapkee::verif::shuffle_seed((unsigned)c.i("shuffle", 1));
    Outcome a = guarded_embed(idx, cb, params_from_case(c));
    // conditioning: perturbed twin, single-threaded
    double amp = 0;
    if (a.what == "ok" && a.out.embedding.allFinite())
    {
        Mat Xp = X;
        Rng pg(77);
        double spread = std::max(1e-300, X.cwiseAbs().maxCoeff());
        for (int i = 0; i < Xp.size(); ++i)
            Xp.data()[i] += 1e-9 * spread * pg.gauss();
        MatrixCallbacks cbp(Xp);
        configure_callbacks(cbp, c);
        std::srand((unsigned)c.i("srand", 1));
        tapkee::verif::shuffle_seed((unsigned)c.i("shuffle", 1));
        Outcome p = guarded_embed(idx, cbp, params_from_case(c));
        if (p.what == "ok" && p.out.embedding.allFinite())
        {
            Mat D1 = pairwise_dist(a.out.embedding), D2 = pairwise_dist(p.out.embedding);
            amp = (D1 - D2).cwiseAbs().maxCoeff() / std::max(1e-300, D1.maxCoeff()) / 1e-9;
        }
        else
            amp = 1e300;
    }
    omp_set_num_threads(threads);
    std::srand((unsigned)c.i("srand", 1));
    tapkee::verif::shuffle_seed((unsigned)c.i("shuffle", 1));
    Outcome b = guarded_embed(idx, cb, params_from_case(c));
    omp_set_num_threads(1);
    if (a.what != b.what)
    {
        r.violation(c.s("method") + ":outcome-depends-on-thread-count", a.what + " with 1 thread, " + b.what + sf(" with %d", threads));
        return;
    }
    if (a.what != "ok" || !a.out.embedding.allFinite())
    {
        r.inconclusive.push_back("single-threaded run threw or is not finite: " + a.what);
        return;
    }
    if (amp > 1e5)
    {
        r.inconclusive.push_back("ill-conditioned case");
        return;
    }
    Mat D1 = pairwise_dist(a.out.embedding), D2 = pairwise_dist(b.out.embedding);
    double dev = (D1 - D2).cwiseAbs().maxCoeff() / std::max(1e-300, D1.maxCoeff());
    double tol = std::max(1e-9, amp * 2.3e-16 * 1000);
    r.maxnum("dev", dev);
    if (!(dev <= tol))
        r.violation(c.s("method") + ":embedding-depends-on-thread-count",
                    sf("%d threads vs 1: embedded distances differ by %.3g (tolerance %.3g, amplification %.3g)", threads, dev, tol, amp));
    r.num["threads"] = threads;
    r.nontrivial = true;
    r.tags.push_back("e2e:" + c.s("method"));
}

void run_case(const Case& c, Result& r)
{
    if (c.s("mode") == "e2e")
        run_e2e_case(c, r);
    else
        run_stage_case(c, r);
}
} // namespace

int main(int argc, char** argv)
{
    return driver_main(argc, argv, run_case, vh::install_tick);
}
