// Deterministic data generators (own PRNG; never std::rand, which tapkee itself uses).
// A data set is a D x N matrix, one sample per column (tapkee's convention).
#pragma once
#include "common.hpp"
// Eigen is always included through tapkee's own wrapper so that every translation unit sees the same Eigen configuration
#include <tapkee/defines/eigen3.hpp>

namespace vh
{
typedef Eigen::MatrixXd Mat;
typedef Eigen::VectorXd Vec;

inline Mat random_orthogonal(int D, Rng& g)
{
    Mat A(D, D);
    for (int i = 0; i < D; ++i)
        for (int j = 0; j < D; ++j)
            A(i, j) = g.gauss();
    Eigen::HouseholderQR<Mat> qr(A);
    Mat Q = qr.householderQ();
    // random column signs so that reflections occur too
    for (int j = 0; j < D; ++j)
        if (g.uni() < 0.5)
            Q.col(j) *= -1;
    return Q;
}

// Embeds q-dimensional coordinates Z (q x N) isometrically into D dims, plus offset.
inline Mat embed_isometric(const Mat& Z, int D, Rng& g, double offset_scale)
{
    int q = (int)Z.rows();
    Mat Q = random_orthogonal(D, g);
    Mat X = Q.leftCols(q) * Z;
    Vec mu(D);
    for (int i = 0; i < D; ++i)
        mu(i) = offset_scale * g.gauss();
    X.colwise() += mu;
    return X;
}

inline Mat make_data(const Case& c)
{
    std::string kind = c.s("data", "gauss");
    int N = (int)c.i("N", 20);
    int D = (int)c.i("D", 3);
    Rng g((uint64_t)c.i("dseed", 1) * 1000003ull + 17);
    Mat X = Mat::Zero(D, N);
    if (kind == "gauss")
    {
        Vec sc(D);
        for (int i = 0; i < D; ++i)
            sc(i) = std::exp(g.uni(-1.0, 1.0));
        for (int j = 0; j < N; ++j)
            for (int i = 0; i < D; ++i)
                X(i, j) = sc(i) * g.gauss();
    }
    else if (kind == "swiss" || kind == "scurve" || kind == "sphere")
    {
        Mat Z = Mat::Zero(std::max(D, 3), N);
        double jit = c.d("jitter", 0.01);
        for (int j = 0; j < N; ++j)
        {
            if (kind == "swiss")
            {
                double t = 1.5 * M_PI * (1 + 2 * g.uni());
                Z(0, j) = t * std::cos(t);
                Z(1, j) = 10 * g.uni();
                Z(2, j) = t * std::sin(t);
            }
            else if (kind == "scurve")
            {
                double t = 3 * M_PI * (g.uni() - 0.5);
                Z(0, j) = std::sin(t);
                Z(1, j) = 2 * g.uni();
                Z(2, j) = (t < 0 ? -1 : 1) * (std::cos(t) - 1);
            }
            else
            {
                double th = 0.9 * g.uni(), ph = 2 * M_PI * g.uni();
                Z(0, j) = std::sin(th) * std::cos(ph);
                Z(1, j) = std::sin(th) * std::sin(ph);
                Z(2, j) = std::cos(th);
            }
            for (int i = 0; i < Z.rows(); ++i)
                Z(i, j) += jit * g.gauss();
        }
        X = Z.topRows(D);
        if (D < 3)
            X = Z.topRows(D);
    }
    else if (kind == "flat")
    {
        // q-dimensional affine patch embedded isometrically in D dims (no noise)
        int q = (int)c.i("q", std::min(2, D));
        q = std::min(q, D);
        Mat Z(q, N);
        for (int j = 0; j < N; ++j)
            for (int i = 0; i < q; ++i)
                Z(i, j) = g.uni(-1, 1) * (1 + i);
        // optional elongation: the extents of the q intrinsic directions spread geometrically over a factor `aniso`
        if (c.has("aniso") && q > 1)
            for (int i = 0; i < q; ++i)
                Z.row(i) *= std::pow(c.d("aniso", 1.0), -(double)i / (q - 1)) / (1 + i);
        X = embed_isometric(Z, D, g, c.d("offset", 1.0));
    }
    else if (kind == "mix")
    {
        // X = A Z + mu : correlated features, non-zero mean, exact rank q
        int q = (int)c.i("q", D);
        q = std::min(q, D);
        Mat Z(q, N), A(D, q);
        for (int j = 0; j < N; ++j)
            for (int i = 0; i < q; ++i)
                Z(i, j) = g.gauss() * std::pow(0.7, i);
        for (int i = 0; i < D; ++i)
            for (int j = 0; j < q; ++j)
                A(i, j) = g.gauss();
        X = A * Z;
        Vec mu(D);
        double off = c.d("offset", 10.0);
        for (int i = 0; i < D; ++i)
            mu(i) = off * g.gauss();
        X.colwise() += mu;
    }
    else if (kind == "dup")
    {
        // base points each repeated `copies` times (last group truncated)
        int r = std::max(1, (int)c.i("copies", 2));
        int nb = (N + r - 1) / r;
        Mat B(D, nb);
        for (int j = 0; j < nb; ++j)
            for (int i = 0; i < D; ++i)
                B(i, j) = g.gauss();
        for (int j = 0; j < N; ++j)
            X.col(j) = B.col(j / r);
    }
    else if (kind == "lattice")
    {
        // integer lattice in min(D,3) dims, row-major enumeration, then optionally shuffled
        int dims = std::min(D, (int)c.i("ldims", 2));
        int side = std::max(2, (int)std::ceil(std::pow((double)N, 1.0 / dims) - 1e-9));
        for (int j = 0; j < N; ++j)
        {
            int r = j;
            for (int i = 0; i < dims; ++i)
            {
                X(i, j) = r % side;
                r /= side;
            }
        }
    }
    else if (kind == "collinear")
    {
        Vec v(D), o(D);
        for (int i = 0; i < D; ++i)
        {
            v(i) = g.gauss();
            o(i) = g.gauss();
        }
        for (int j = 0; j < N; ++j)
            X.col(j) = o + (g.uni(-3, 3)) * v;
    }
    else if (kind == "constant")
    {
        Vec o(D);
        for (int i = 0; i < D; ++i)
            o(i) = g.gauss();
        for (int j = 0; j < N; ++j)
            X.col(j) = o;
    }
    else if (kind == "constfirst")
    {
        // first cf features constant, the rest generic
        int cf = std::min(D, (int)c.i("cf", 1));
        for (int j = 0; j < N; ++j)
            for (int i = 0; i < D; ++i)
                X(i, j) = (i < cf) ? 1.5 : g.gauss();
    }
    else if (kind == "wide")
    {
        // coordinates spanning many decades
        double dec = c.d("decades", 6);
        for (int j = 0; j < N; ++j)
            for (int i = 0; i < D; ++i)
                X(i, j) = (g.uni() < 0.5 ? -1 : 1) * std::pow(10.0, g.uni(-dec, dec));
    }
    else if (kind == "offset")
    {
        // tight clusters around a huge offset
        double off = c.d("offset", 1e6);
        for (int j = 0; j < N; ++j)
            for (int i = 0; i < D; ++i)
                X(i, j) = off + g.gauss();
    }
    else if (kind == "clusters")
    {
        // `nc` Gaussian clusters; sizes geometric with ratio `ratio`; centres `gap` sigmas apart
        int nc = std::max(1, (int)c.i("nc", 3));
        double gap = c.d("gap", 10), ratio = c.d("ratio", 1.0);
        std::vector<double> w(nc);
        double tot = 0;
        for (int k = 0; k < nc; ++k)
        {
            w[k] = std::pow(ratio, k);
            tot += w[k];
        }
        std::vector<int> label(N);
        int pos = 0;
        for (int k = 0; k < nc; ++k)
        {
            int cnt = (k == nc - 1) ? N - pos : std::max(1, (int)std::floor(N * w[k] / tot));
            cnt = std::min(cnt, N - pos - (nc - 1 - k));
            for (int t = 0; t < cnt; ++t)
                label[pos++] = k;
        }
        Mat ctr(D, nc);
        for (int k = 0; k < nc; ++k)
            for (int i = 0; i < D; ++i)
                ctr(i, k) = (i == 0 ? gap * k : 0.0) + 0.1 * gap * g.gauss() * (i > 0);
        for (int j = 0; j < N; ++j)
            for (int i = 0; i < D; ++i)
                X(i, j) = ctr(i, label[j]) + g.gauss();
        if (c.i("outliers", 0) > 0)
        {
            int no = std::min(N - 1, (int)c.i("outliers", 0));
            for (int t = 0; t < no; ++t)
                for (int i = 0; i < D; ++i)
                    X(i, N - 1 - t) = (i == 1 ? (5 + t) * gap : 0) + g.gauss();
        }
    }
    else if (kind == "jgrid")
    {
        // jittered 2-D grid with unit spacing (uniform neighbour distances, no ties), lifted to D correlated dimensions
        int side = std::max(2, (int)std::ceil(std::sqrt((double)N)));
        Mat Z(2, N);
        for (int j = 0; j < N; ++j)
        {
            Z(0, j) = (j % side) + 0.05 * g.gauss();
            Z(1, j) = (j / side) + 0.05 * g.gauss();
        }
        if (D >= 2)
        {
            X = embed_isometric(Z, D, g, c.d("offset", 0.0));
            for (int j = 0; j < N; ++j)
                for (int i = 0; i < D; ++i)
                    X(i, j) += 0.02 * g.gauss();
        }
        else
            X = Z.topRows(1);
    }
    else if (kind == "multiscale")
    {
        // nested pairs at geometrically shrinking scales: dynamic range of pairwise distances = 10^decades
        double dec = c.d("decades", 12);
        for (int j = 0; j < N; ++j)
        {
            double s = std::pow(10.0, -dec * j / std::max(1, N - 1));
            for (int i = 0; i < D; ++i)
                X(i, j) = s * (i == j % D ? 1.0 : 0.3 * g.gauss());
        }
    }
    else if (kind == "chain")
    {
        // points along a curve with geometrically growing gaps
        double grow = c.d("grow", 1.2);
        double pos = 0, step = 1;
        for (int j = 0; j < N; ++j)
        {
            X(0, j) = pos;
            for (int i = 1; i < D; ++i)
                X(i, j) = 0.05 * g.gauss();
            pos += step;
            step *= grow;
        }
    }
    else if (kind == "srcfirst")
    {
        // a Gaussian bulk whose *first* sample is an outlier: it has its neighbours in the bulk but is nobody's neighbour,
        // so the directed k-NN graph is not strongly connected although sample 0 reaches every sample
        for (int j = 0; j < N; ++j)
            for (int i = 0; i < D; ++i)
                X(i, j) = g.gauss();
        // the closest position along a random direction at which the outlier is beyond the k-th neighbour distance of every
        // bulk sample; the data are then rescaled so that the outlier's nearest sample is at distance 1 (heat-kernel weights
        // of the usual widths stay far from underflow: a numerically disconnected graph has no well-defined embedding)
        int k = (int)std::min<long>(c.i("k", 5), N - 2);
        std::vector<double> dk(N, 0.0);
        double r = 0;
        for (int j = 1; j < N; ++j)
        {
            std::vector<double> d;
            for (int l = 1; l < N; ++l)
                if (l != j)
                    d.push_back((X.col(j) - X.col(l)).norm());
            std::sort(d.begin(), d.end());
            dk[j] = d[std::min<int>(k - 1, (int)d.size() - 1)];
            r = std::max(r, X.col(j).norm());
        }
        Vec dir(D);
        for (int i = 0; i < D; ++i)
            dir(i) = g.gauss();
        dir /= dir.norm();
        for (double R = r;; R *= 1.05)
        {
            X.col(0) = dir * R;
            bool ok = true;
            for (int j = 1; j < N && ok; ++j)
                ok = (X.col(0) - X.col(j)).norm() > 1.05 * dk[j];
            if (ok)
                break;
        }
        double nearest = 1e300;
        for (int j = 1; j < N; ++j)
            nearest = std::min(nearest, (X.col(0) - X.col(j)).norm());
        X /= nearest;
    }
    else
    {
        fprintf(stderr, "unknown data kind %s\n", kind.c_str());
        exit(2);
    }
    // optional exact repetition: consecutive groups of `dupcopies` samples become bit-identical copies of the group's first
    if (c.has("dupcopies"))
    {
        int r = std::max(1, (int)c.i("dupcopies", 1));
        for (int j = 0; j < N; ++j)
            X.col(j) = Mat(X.col(j - j % r));
    }
    // optional overall unit change (the data measured in a much smaller / larger unit)
    if (c.has("xscale"))
        X *= c.d("xscale", 1.0);
    // optional sample permutation (order-dependence probes)
    long pseed = c.i("perm", 0);
    if (pseed != 0)
    {
        Rng pg((uint64_t)pseed);
        std::vector<int> p(N);
        for (int i = 0; i < N; ++i)
            p[i] = i;
        pg.shuffle(p);
        Mat Y(D, N);
        for (int j = 0; j < N; ++j)
            Y.col(j) = X.col(p[j]);
        X = Y;
    }
    return X;
}

} // namespace vh
