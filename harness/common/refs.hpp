// Independent numerical references (plain loops + Eigen dense solvers on fully populated matrices)
// and the comparison discipline of DESIGN 2.5 (gap-conditioned, sign/basis-free).
#pragma once
#include "data.hpp"
#include <Eigen/Eigenvalues>
#include <Eigen/SVD>

namespace vh
{
struct Spectrum
{
    Vec vals; // descending
    Mat vecs;
};

inline Spectrum sym_eig_desc(const Mat& A)
{
    Mat S = 0.5 * (A + A.transpose());
    Eigen::SelfAdjointEigenSolver<Mat> es(S);
    Spectrum sp;
    int n = (int)A.rows();
    sp.vals = es.eigenvalues().reverse();
    sp.vecs = es.eigenvectors().rowwise().reverse();
    (void)n;
    return sp;
}

// generalized symmetric-definite problem A v = l B v, eigenvalues ascending, v^T B v = 1
inline Spectrum gen_eig_asc(const Mat& A, const Mat& B)
{
    Mat As = 0.5 * (A + A.transpose()), Bs = 0.5 * (B + B.transpose());
    Eigen::GeneralizedSelfAdjointEigenSolver<Mat> es(As, Bs);
    Spectrum sp;
    sp.vals = es.eigenvalues();
    sp.vecs = es.eigenvectors();
    return sp;
}

inline Mat double_center(const Mat& M)
{
    int n = (int)M.rows();
    Mat J = Mat::Identity(n, n) - Mat::Constant(n, n, 1.0 / n);
    return J * M * J;
}

// relative eigen-gap at the cut d (between the d-th and (d+1)-th largest), relative to the largest magnitude
inline double rel_gap_desc(const Vec& vals, int d)
{
    int n = (int)vals.size();
    double top = std::max(std::fabs(vals(0)), std::fabs(vals(n - 1)));
    if (top == 0)
        return 0;
    if (d >= n)
        return 1;
    return (vals(d - 1) - vals(d)) / top;
}

struct SubspaceVerdict
{
    bool conclusive = true;
    bool ok = true;
    double err = 0, tol = 0, gap = 0;
};

// || Y Y^T - B_d ||_F relative to ||B_d||_F where B_d is the best rank-d PSD approximation of B (descending spectrum sp)
inline SubspaceVerdict check_gram_topd(const Mat& Y, const Spectrum& sp, int d)
{
    SubspaceVerdict v;
    v.gap = rel_gap_desc(sp.vals, d);
    Mat U = sp.vecs.leftCols(d);
    Vec l = sp.vals.head(d);
    Mat Bd = U * l.asDiagonal() * U.transpose();
    double nb = Bd.norm();
    v.err = (Y * Y.transpose() - Bd).norm() / std::max(nb, 1e-300);
    if (v.gap < 1e-6)
    {
        v.conclusive = false;
        return v;
    }
    v.tol = 1e-9 / v.gap;
    v.ok = v.err <= v.tol;
    return v;
}

// distance between column spaces: || (I - P_ref) Q ||_2 for orthonormalised Q
inline double subspace_dist(const Mat& A, const Mat& Bref)
{
    Eigen::HouseholderQR<Mat> qa(A), qb(Bref);
    Mat Qa = qa.householderQ() * Mat::Identity(A.rows(), A.cols());
    Mat Qb = qb.householderQ() * Mat::Identity(Bref.rows(), Bref.cols());
    Mat R = Qa - Qb * (Qb.transpose() * Qa);
    Eigen::JacobiSVD<Mat> svd(R);
    return svd.singularValues().size() ? svd.singularValues()(0) : 0.0;
}

// aligns the column signs of Y to those of Ref (per column by inner product)
inline Mat align_signs(const Mat& Y, const Mat& Ref)
{
    Mat Z = Y;
    for (int j = 0; j < Y.cols() && j < Ref.cols(); ++j)
        if (Y.col(j).dot(Ref.col(j)) < 0)
            Z.col(j) *= -1;
    return Z;
}

inline Mat pairwise_dist(const Mat& Yrows) // rows = samples
{
    int n = (int)Yrows.rows();
    Mat D(n, n);
    for (int i = 0; i < n; ++i)
        for (int j = 0; j < n; ++j)
            D(i, j) = (Yrows.row(i) - Yrows.row(j)).norm();
    return D;
}

inline double rel_diff(const Mat& A, const Mat& B)
{
    double s = std::max(std::max(A.cwiseAbs().maxCoeff(), B.cwiseAbs().maxCoeff()), 1e-300);
    return (A - B).cwiseAbs().maxCoeff() / s;
}

// Floyd-Warshall shortest paths on directed neighbour lists with weights W(i,j); unreachable = +inf
inline Mat floyd_warshall(const std::vector<std::vector<int>>& nb, const Mat& W)
{
    int n = (int)nb.size();
    const double INF = std::numeric_limits<double>::infinity();
    Mat G = Mat::Constant(n, n, INF);
    for (int i = 0; i < n; ++i)
    {
        G(i, i) = 0;
        for (int j : nb[i])
            if (j != i)
                G(i, j) = std::min(G(i, j), W(i, j));
    }
    for (int k = 0; k < n; ++k)
        for (int i = 0; i < n; ++i)
        {
            double gik = G(i, k);
            if (gik == INF)
                continue;
            for (int j = 0; j < n; ++j)
                if (gik + G(k, j) < G(i, j))
                    G(i, j) = gik + G(k, j);
        }
    return G;
}

// independent binary-heap Dijkstra (one source)
inline Vec dijkstra_ref(const std::vector<std::vector<int>>& nb, const Mat& W, int src)
{
    int n = (int)nb.size();
    const double INF = std::numeric_limits<double>::infinity();
    Vec d = Vec::Constant(n, INF);
    std::vector<char> done(n, 0);
    typedef std::pair<double, int> E;
    std::vector<E> heap;
    auto cmp = [](const E& a, const E& b) { return a.first > b.first; };
    d(src) = 0;
    heap.push_back({0.0, src});
    while (!heap.empty())
    {
        std::pop_heap(heap.begin(), heap.end(), cmp);
        E e = heap.back();
        heap.pop_back();
        int u = e.second;
        if (done[u])
            continue;
        done[u] = 1;
        for (int v : nb[u])
        {
            double nd = d(u) + W(u, v);
            if (nd < d(v))
            {
                d(v) = nd;
                heap.push_back({nd, v});
                std::push_heap(heap.begin(), heap.end(), cmp);
            }
        }
    }
    return d;
}

inline uint64_t hash_bits(const Mat& M)
{
    uint64_t h = 1469598103934665603ull;
    const unsigned char* p = reinterpret_cast<const unsigned char*>(M.data());
    size_t n = sizeof(double) * (size_t)M.size();
    for (size_t i = 0; i < n; ++i)
    {
        h ^= p[i];
        h *= 1099511628211ull;
    }
    return h;
}
} // namespace vh
