// Counting, type-erased callbacks over a data matrix (D x N, one sample per column).
#pragma once
#include "data.hpp"
#include "embed_api.hpp"
#include <atomic>

namespace vh
{
enum KernelKind
{
    K_LINEAR,
    K_RBF,
    K_POLY
};
enum DistKind
{
    D_L2,
    D_L1,
    D_LINF,
    D_DISCRETE,
    D_MATRIX
};

struct MatrixCallbacks : VCallbacks
{
    const Mat& X;
    KernelKind kk = K_LINEAR;
    DistKind dk = D_L2;
    double gamma = 0.5;   // rbf: exp(-gamma |x-y|^2)
    double pc = 1.0;      // poly: (x.y + pc)^2
    const Mat* Dm = nullptr; // D_MATRIX
    std::atomic<long> nk{0}, nd{0}, nf{0};
    // The values handed to the callbacks are sample *labels* (what the iterators point at), not positions in the range.
    // label -> column of X: col_of_label if given, else label - label_base. A label outside the map means the library passed
    // something that is not a sample (e.g. a position) to a callback.
    std::vector<int> col_of_label;
    int label_base = 0;
    std::atomic<long> bad_labels{0};
    int col(int label)
    {
        int n = (int)X.cols();
        int c = col_of_label.empty() ? label - label_base : ((label >= 0 && label < (int)col_of_label.size()) ? col_of_label[label] : -1);
        if (c < 0 || c >= n)
        {
            bad_labels.fetch_add(1, std::memory_order_relaxed);
            non_sample_calls().fetch_add(1, std::memory_order_relaxed);
            return 0;
        }
        return c;
    }
    // optional per-call hook (delay injection for the race checks)
    std::function<void(int, int)> on_call;

    explicit MatrixCallbacks(const Mat& x) : X(x)
    {
    }
    double kval(int a, int b) const
    {
        switch (kk)
        {
        case K_LINEAR:
            return X.col(a).dot(X.col(b));
        case K_RBF:
            return std::exp(-gamma * (X.col(a) - X.col(b)).squaredNorm());
        case K_POLY: {
            double v = X.col(a).dot(X.col(b)) + pc;
            return v * v;
        }
        }
        return 0;
    }
    double dval(int a, int b) const
    {
        switch (dk)
        {
        case D_L2:
            return (X.col(a) - X.col(b)).norm();
        case D_L1:
            return (X.col(a) - X.col(b)).cwiseAbs().sum();
        case D_LINF:
            return (X.col(a) - X.col(b)).cwiseAbs().maxCoeff();
        case D_DISCRETE:
            return (X.col(a) - X.col(b)).squaredNorm() == 0 ? 0.0 : 1.0;
        case D_MATRIX:
            return (*Dm)(a, b);
        }
        return 0;
    }
    double kernel(int a, int b) override
    {
        nk.fetch_add(1, std::memory_order_relaxed);
        if (on_call)
            on_call(a, b);
        return kval(col(a), col(b));
    }
    double distance(int a, int b) override
    {
        nd.fetch_add(1, std::memory_order_relaxed);
        if (on_call)
            on_call(a, b);
        return dval(col(a), col(b));
    }
    void features(int a, tapkee::DenseVector& v) override
    {
        nf.fetch_add(1, std::memory_order_relaxed);
        v = X.col(col(a));
    }
    int dimension() override
    {
        return (int)X.rows();
    }
    long pairwise_calls() const
    {
        return nk.load() + nd.load();
    }
    // Induced distance used by kernel methods: sqrt(k(a,a) - 2k(a,b) + k(b,b))
    double kdist(int a, int b) const
    {
        return std::sqrt(kval(a, a) - 2 * kval(a, b) + kval(b, b));
    }
    Mat kernel_matrix() const
    {
        int N = (int)X.cols();
        Mat K(N, N);
        for (int i = 0; i < N; ++i)
            for (int j = 0; j < N; ++j)
                K(i, j) = kval(i, j);
        return K;
    }
    Mat distance_matrix() const
    {
        int N = (int)X.cols();
        Mat Dd(N, N);
        for (int i = 0; i < N; ++i)
            for (int j = 0; j < N; ++j)
                Dd(i, j) = dval(i, j);
        return Dd;
    }
};

inline void configure_callbacks(MatrixCallbacks& cb, const Case& c)
{
    std::string k = c.s("kernel", "linear"), d = c.s("dist", "l2");
    cb.kk = k == "rbf" ? K_RBF : k == "poly" ? K_POLY : K_LINEAR;
    cb.dk = d == "l1" ? D_L1 : d == "linf" ? D_LINF : d == "discrete" ? D_DISCRETE : D_L2;
    cb.gamma = c.d("gamma", 0.5);
}

inline std::vector<int> iota_indices(int N)
{
    std::vector<int> v(N);
    for (int i = 0; i < N; ++i)
        v[i] = i;
    return v;
}

// ---- parameter sets from a case ------------------------------------------------------
inline tapkee::DimensionReductionMethod method_by_name(const std::string& m)
{
    using namespace tapkee;
    if (m == "klle") return KernelLocallyLinearEmbedding;
    if (m == "npe") return NeighborhoodPreservingEmbedding;
    if (m == "kltsa") return KernelLocalTangentSpaceAlignment;
    if (m == "lltsa") return LinearLocalTangentSpaceAlignment;
    if (m == "hlle") return HessianLocallyLinearEmbedding;
    if (m == "le") return LaplacianEigenmaps;
    if (m == "lpp") return LocalityPreservingProjections;
    if (m == "dm") return DiffusionMap;
    if (m == "isomap") return Isomap;
    if (m == "lisomap") return LandmarkIsomap;
    if (m == "mds") return MultidimensionalScaling;
    if (m == "lmds") return LandmarkMultidimensionalScaling;
    if (m == "spe") return StochasticProximityEmbedding;
    if (m == "kpca") return KernelPrincipalComponentAnalysis;
    if (m == "pca") return PrincipalComponentAnalysis;
    if (m == "rp") return RandomProjection;
    if (m == "fa") return FactorAnalysis;
    if (m == "tsne") return tDistributedStochasticNeighborEmbedding;
    if (m == "ms") return ManifoldSculpting;
    if (m == "passthru") return PassThru;
    fprintf(stderr, "unknown method %s\n", m.c_str());
    exit(2);
}

static const char* const ALL_METHODS[] = {"klle", "npe",  "kltsa", "lltsa", "hlle", "le", "lpp",  "dm", "isomap", "lisomap",
                                          "mds",  "lmds", "spe",   "kpca",  "pca",  "rp", "fa",   "tsne", "ms",   "passthru"};

inline tapkee::NeighborsMethod nm_by_name(const std::string& m)
{
    if (m == "brute") return tapkee::Brute;
    if (m == "vptree") return tapkee::VpTree;
    return tapkee::CoverTree;
}

// Builds the ParametersSet for a case. Only keys present in the case are set (others default).
inline tapkee::ParametersSet params_from_case(const Case& c)
{
    using namespace tapkee;
    ParametersSet ps;
    ps.add(method = method_by_name(c.s("method", "passthru")));
    if (c.has("td")) ps.add(target_dimension = (IndexType)c.i("td"));
    if (c.has("k")) ps.add(num_neighbors = (IndexType)c.i("k"));
    if (c.has("nm")) ps.add(neighbors_method = nm_by_name(c.s("nm")));
    if (c.has("em")) ps.add(eigen_method = (c.s("em") == "randomized" ? Randomized : Dense));
    if (c.has("width")) ps.add(gaussian_kernel_width = c.d("width"));
    if (c.has("timesteps")) ps.add(diffusion_map_timesteps = (IndexType)c.i("timesteps"));
    if (c.has("maxiter")) ps.add(max_iteration = (IndexType)c.i("maxiter"));
    if (c.has("speglobal")) ps.add(spe_global_strategy = (c.i("speglobal") != 0));
    if (c.has("spetol")) ps.add(spe_tolerance = c.d("spetol"));
    if (c.has("speupd")) ps.add(spe_num_updates = (IndexType)c.i("speupd"));
    if (c.has("ratio")) ps.add(landmark_ratio = c.d("ratio"));
    if (c.has("nshift")) ps.add(nullspace_shift = c.d("nshift"));
    if (c.has("kshift")) ps.add(klle_shift = c.d("kshift"));
    if (c.has("conn")) ps.add(check_connectivity = (c.i("conn") != 0));
    if (c.has("faeps")) ps.add(fa_epsilon = c.d("faeps"));
    if (c.has("perp")) ps.add(sne_perplexity = c.d("perp"));
    if (c.has("theta")) ps.add(sne_theta = c.d("theta"));
    if (c.has("squish")) ps.add(squishing_rate = c.d("squish"));
    return ps;
}

// ---- capturing logger -------------------------------------------------------------------
} // namespace vh

#include <tapkee/utils/logging.hpp>
namespace vh
{
struct CaptureLogger : tapkee::LoggerImplementation
{
    std::vector<std::string> info, warning, debug, error;
    void message_info(const std::string& m) override
    {
        info.push_back(m);
    }
    void message_warning(const std::string& m) override
    {
        warning.push_back(m);
    }
    void message_debug(const std::string& m) override
    {
        debug.push_back(m);
    }
    void message_error(const std::string& m) override
    {
        error.push_back(m);
    }
    void message_benchmark(const std::string&) override
    {
    }
    void clear()
    {
        info.clear();
        warning.clear();
        debug.clear();
        error.clear();
    }
};

// Installs a capture logger once per process (the singleton owns and deletes it).
inline CaptureLogger& capture_logger()
{
    static CaptureLogger* lg = nullptr;
    if (!lg)
    {
        lg = new CaptureLogger;
        tapkee::Logging::instance().set_logger_impl(lg);
        tapkee::Logging::instance().enable_info();
        tapkee::Logging::instance().enable_debug();
    }
    return *lg;
}

inline void install_tick(void (*h)(const char*))
{
    tapkee::verif::tick_handler() = h;
}
} // namespace vh
