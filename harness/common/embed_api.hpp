// Non-template entry point into tapkee::embed with one uniform set of type-erased
// callbacks, compiled once per build variant (embed_api.cpp instantiates all 20 methods).
#pragma once
#include <tapkee/defines.hpp>
#include <vector>

namespace vh
{
struct VCallbacks
{
    virtual ~VCallbacks()
    {
    }
    virtual double kernel(int a, int b) = 0;
    virtual double distance(int a, int b) = 0;
    virtual void features(int a, tapkee::DenseVector& v) = 0;
    virtual int dimension() = 0;
};

tapkee::TapkeeOutput embed_uniform(std::vector<int>& indices, VCallbacks& cb, tapkee::ParametersSet params);

// Outcome of a guarded call: "ok" or the name of the exception type that escaped.
struct Outcome
{
    std::string what;   // "ok", one of the nine documented names, "std::exception:<type>", "unknown"
    std::string message;
    bool documented = true;
    tapkee::TapkeeOutput out;
};
// label of the padding elements that surround the samples in the container embed_uniform hands over (never a valid label)
static const int NOT_A_SAMPLE = -7777777;
Outcome guarded_embed(std::vector<int>& indices, VCallbacks& cb, tapkee::ParametersSet params);

// One output variable per thread that every harness call assigns its result over, the way a caller that reuses one variable
// does (`result = tapkee::embed(...)`): whatever the assignment leaves behind from the previous result (e.g. the projection
// of an earlier projecting method) becomes visible to the checks of the next call.
tapkee::TapkeeOutput& carried_output();

// the same request through the library's own eigen_*_callback types over a larger matrix (see embed_api.cpp); linear kernel and
// Euclidean distance only
Outcome guarded_embed_eigen_subrange(const Eigen::MatrixXd& X, unsigned long seed, tapkee::ParametersSet params);

// classify the in-flight exception (call inside catch(...))
void classify_current_exception(Outcome& o);
} // namespace vh
