// Call forms of the public chain interface, each instantiated in its own translation unit (forms.cpp -DFORM=...).
#pragma once
#include "data.hpp"
#include "embed_api.hpp"
#include <atomic>

namespace vh
{
struct Counters
{
    std::atomic<long> k{0}, d{0}, f{0};
    void reset()
    {
        k = 0;
        d = 0;
        f = 0;
    }
};

// indices + hand-written counting callbacks; mask bit 1 = kernel, 2 = distance, 4 = features supplied through the chain.
// order (0..5) = order of withKernel/withDistance/withFeatures for the full mask; use_range: embedRange vs embedUsing(container)
// n_override >= 0: embed only the first n_override indices (0 = empty range)
Outcome form_counting_1(int order, const Mat& X, tapkee::ParametersSet ps, Counters& cnt, bool use_range, int n_override);
Outcome form_counting_2(int order, const Mat& X, tapkee::ParametersSet ps, Counters& cnt, bool use_range, int n_override);
Outcome form_counting_3(int order, const Mat& X, tapkee::ParametersSet ps, Counters& cnt, bool use_range, int n_override);
Outcome form_counting_4(int order, const Mat& X, tapkee::ParametersSet ps, Counters& cnt, bool use_range, int n_override);
Outcome form_counting_5(int order, const Mat& X, tapkee::ParametersSet ps, Counters& cnt, bool use_range, int n_override);
Outcome form_counting_6(int order, const Mat& X, tapkee::ParametersSet ps, Counters& cnt, bool use_range, int n_override);
Outcome form_counting_7(int order, const Mat& X, tapkee::ParametersSet ps, Counters& cnt, bool use_range, int n_override);
// the same callbacks over an arbitrary sequence of column labels (a permutation, not 0..N-1)
Outcome form_counting_sequence(const Mat& X, tapkee::ParametersSet ps, Counters& cnt, const std::vector<int>& sequence);
Outcome form_eigen_sequence(const Mat& X, tapkee::ParametersSet ps, const std::vector<int>& sequence);
Outcome form_precomputed_sequence(const Mat& X, tapkee::ParametersSet ps, const std::vector<int>& sequence);
Outcome form_matrix(const Mat& X, tapkee::ParametersSet ps);
Outcome form_precomputed(const Mat& X, tapkee::ParametersSet ps);
Outcome form_objects(const Mat& X, tapkee::ParametersSet ps, bool use_range);

inline Outcome form_counting(int mask, int order, const Mat& X, tapkee::ParametersSet ps, Counters& cnt, bool use_range = true,
                             int n_override = -1)
{
    switch (mask)
    {
    case 1: return form_counting_1(order, X, ps, cnt, use_range, n_override);
    case 2: return form_counting_2(order, X, ps, cnt, use_range, n_override);
    case 3: return form_counting_3(order, X, ps, cnt, use_range, n_override);
    case 4: return form_counting_4(order, X, ps, cnt, use_range, n_override);
    case 5: return form_counting_5(order, X, ps, cnt, use_range, n_override);
    case 6: return form_counting_6(order, X, ps, cnt, use_range, n_override);
    default: return form_counting_7(order, X, ps, cnt, use_range, n_override);
    }
}
} // namespace vh
