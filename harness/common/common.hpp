// Shared harness plumbing: case parsing, PRNG, JSON output, watchdog, tick budget.
// A driver defines `void run_case(const Case& c, Result& r)` and calls `driver_main`.
#pragma once

#include <algorithm>
#include <atomic>
#include <cmath>
#include <csignal>
#include <cstdarg>
#include <cstdint>
#include <cstdio>
#include <cstdlib>
#include <cstring>
#include <fstream>
#include <functional>
#include <iostream>
#include <map>
#include <set>
#include <sstream>
#include <string>
#include <unistd.h>
#include <vector>

namespace vh
{

// ---------------------------------------------------------------- PRNG
struct Rng
{
    uint64_t s;
    explicit Rng(uint64_t seed) : s(seed * 0x9E3779B97F4A7C15ull + 0x1234567ull)
    {
        next();
        next();
    }
    uint64_t next()
    {
        uint64_t z = (s += 0x9E3779B97F4A7C15ull);
        z = (z ^ (z >> 30)) * 0xBF58476D1CE4E5B9ull;
        z = (z ^ (z >> 27)) * 0x94D049BB133111EBull;
        return z ^ (z >> 31);
    }
    double uni()
    {
        return (next() >> 11) * (1.0 / 9007199254740992.0);
    }
    double uni(double a, double b)
    {
        return a + (b - a) * uni();
    }
    int below(int n)
    {
        return n <= 0 ? 0 : (int)(next() % (uint64_t)n);
    }
    int range(int a, int b) // inclusive
    {
        return a + below(b - a + 1);
    }
    double gauss()
    {
        double u1 = uni();
        if (u1 < 1e-300)
            u1 = 1e-300;
        double u2 = uni();
        return std::sqrt(-2.0 * std::log(u1)) * std::cos(6.283185307179586 * u2);
    }
    template <class V> void shuffle(V& v)
    {
        for (int i = (int)v.size() - 1; i > 0; --i)
            std::swap(v[i], v[below(i + 1)]);
    }
};

// ---------------------------------------------------------------- cases
struct Case
{
    std::map<std::string, std::string> kv;
    std::string line;
    bool has(const std::string& k) const
    {
        return kv.count(k) > 0;
    }
    std::string s(const std::string& k, const std::string& def = "") const
    {
        auto it = kv.find(k);
        return it == kv.end() ? def : it->second;
    }
    long i(const std::string& k, long def = 0) const
    {
        auto it = kv.find(k);
        return it == kv.end() ? def : std::strtol(it->second.c_str(), nullptr, 10);
    }
    double d(const std::string& k, double def = 0) const
    {
        auto it = kv.find(k);
        return it == kv.end() ? def : std::strtod(it->second.c_str(), nullptr);
    }
    std::string id() const
    {
        return s("id", "?");
    }
};

inline Case parse_case(const std::string& line)
{
    Case c;
    c.line = line;
    std::istringstream ss(line);
    std::string tok;
    while (ss >> tok)
    {
        size_t p = tok.find('=');
        if (p == std::string::npos)
            c.kv[tok] = "1";
        else
            c.kv[tok.substr(0, p)] = tok.substr(p + 1);
    }
    return c;
}

// ---------------------------------------------------------------- JSON output
inline std::string jesc(const std::string& s)
{
    std::string o;
    for (unsigned char ch : s)
    {
        if (ch == '"' || ch == '\\')
        {
            o += '\\';
            o += (char)ch;
        }
        else if (ch == '\n')
            o += "\\n";
        else if (ch < 0x20)
            o += ' ';
        else
            o += (char)ch;
    }
    return o;
}

inline std::string jnum(double v)
{
    if (std::isnan(v))
        return "\"nan\"";
    if (std::isinf(v))
        return v > 0 ? "\"inf\"" : "\"-inf\"";
    char b[64];
    snprintf(b, sizeof b, "%.6g", v);
    return b;
}

struct Result
{
    // violations: key (stable, used for known-findings matching) + human detail
    std::vector<std::pair<std::string, std::string>> viol;
    std::vector<std::string> inconclusive; // reasons
    std::map<std::string, double> num;     // numeric observations (max residuals, counts)
    std::map<std::string, std::string> str; // string observations (outcome class, cells)
    std::vector<std::string> tags;         // coverage tags ("cell:..."), distinct-counted by the orchestrator
    bool nontrivial = false;

    void violation(const std::string& key, const std::string& detail)
    {
        if (viol.size() < 20)
            viol.push_back({key, detail});
    }
    void maxnum(const std::string& k, double v)
    {
        auto it = num.find(k);
        if (it == num.end() || !(it->second >= v))
            num[k] = v;
    }
    void addnum(const std::string& k, double v)
    {
        num[k] += v;
    }
    std::string json() const
    {
        std::ostringstream o;
        o << "{\"viol\":[";
        for (size_t i = 0; i < viol.size(); ++i)
            o << (i ? "," : "") << "{\"key\":\"" << jesc(viol[i].first) << "\",\"detail\":\"" << jesc(viol[i].second)
              << "\"}";
        o << "],\"inconclusive\":[";
        for (size_t i = 0; i < inconclusive.size(); ++i)
            o << (i ? "," : "") << "\"" << jesc(inconclusive[i]) << "\"";
        o << "],\"nontrivial\":" << (nontrivial ? "true" : "false") << ",\"num\":{";
        bool f = true;
        for (auto& kv : num)
        {
            o << (f ? "" : ",") << "\"" << jesc(kv.first) << "\":" << jnum(kv.second);
            f = false;
        }
        o << "},\"str\":{";
        f = true;
        for (auto& kv : str)
        {
            o << (f ? "" : ",") << "\"" << jesc(kv.first) << "\":\"" << jesc(kv.second) << "\"";
            f = false;
        }
        o << "},\"tags\":[";
        for (size_t i = 0; i < tags.size(); ++i)
            o << (i ? "," : "") << "\"" << jesc(tags[i]) << "\"";
        o << "]}";
        return o.str();
    }
};

inline std::string sf(const char* f, ...) __attribute__((format(printf, 1, 2)));
inline std::string sf(const char* f, ...)
{
    char b[1024];
    va_list ap;
    va_start(ap, f);
    vsnprintf(b, sizeof b, f, ap);
    va_end(ap);
    return b;
}

// ---------------------------------------------------------------- tick budget (hook H2)
struct Ticks
{
    static std::atomic<long>& count()
    {
        static std::atomic<long> c{0};
        return c;
    }
    static std::atomic<long>& budget()
    {
        static std::atomic<long> b{0};
        return b;
    }
    static FILE*& out()
    {
        static FILE* f = nullptr;
        return f;
    }
    static std::string& current()
    {
        static std::string s;
        return s;
    }
    static void handler(const char* site)
    {
        long c = count().fetch_add(1, std::memory_order_relaxed) + 1;
        long b = budget().load(std::memory_order_relaxed);
        if (b > 0 && c > b)
        {
            // Logical-step budget exhausted: definitive "does not terminate within budget".
            if (out())
            {
                fprintf(out(), "TICKS %s %s %ld\n", current().c_str(), site, c);
                fflush(out());
            }
            _exit(97);
        }
    }
};

// ---------------------------------------------------------------- driver main
typedef void (*case_fn)(const Case&, Result&);

// number of callback invocations (any driver, any callback object) with a value that is not one of the supplied samples
inline std::atomic<long>& non_sample_calls()
{
    static std::atomic<long> n{0};
    return n;
}

inline int driver_main(int argc, char** argv, case_fn fn, void (*install_tick)(void (*)(const char*)) = nullptr)
{
    if (argc < 3)
    {
        fprintf(stderr, "usage: %s <casefile> <outfile>\n", argv[0]);
        return 2;
    }
    std::ifstream in(argv[1]);
    if (!in)
    {
        fprintf(stderr, "cannot open %s\n", argv[1]);
        return 2;
    }
    FILE* out = fopen(argv[2], "a");
    if (!out)
    {
        fprintf(stderr, "cannot open %s\n", argv[2]);
        return 2;
    }
    Ticks::out() = out;
    if (install_tick)
        install_tick(&Ticks::handler);
    std::string line;
    while (std::getline(in, line))
    {
        if (line.empty() || line[0] == '#')
            continue;
        Case c = parse_case(line);
        fprintf(out, "BEGIN %s\n", c.id().c_str());
        fflush(out);
        Ticks::current() = c.id();
        Ticks::count().store(0);
        Ticks::budget().store(c.i("ticks", 0));
        unsigned t = (unsigned)c.i("timeout", 0);
        if (t)
            alarm(t);
        Result r;
        non_sample_calls().store(0);
        fn(c, r);
        alarm(0);
        if (non_sample_calls().load() > 0)
            r.violation("callback-invoked-with-a-non-sample",
                        sf("%ld callback invocations with a value that is not one of the supplied samples (a position, or an element outside the range)",
                           non_sample_calls().load()));
        r.num["ticks"] = (double)Ticks::count().load();
        fprintf(out, "RES %s %s\n", c.id().c_str(), r.json().c_str());
        fflush(out);
    }
    fclose(out);
    return 0;
}

} // namespace vh
