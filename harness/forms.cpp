// One call form of the chain interface per translation unit: compile with -DFORM=1..7 (counting callbacks, mask),
// -DFORM=10 (matrix), -DFORM=11 (precomputed), -DFORM=12 (objects).
#include "common/forms.hpp"
#include <tapkee/callbacks/precomputed_callbacks.hpp>
#include <tapkee/tapkee.hpp>

namespace vh
{
namespace
{
struct CK
{
    const Mat* X;
    Counters* c;
    tapkee::ScalarType kernel(int a, int b) const
    {
        c->k.fetch_add(1, std::memory_order_relaxed);
        return X->col(a).dot(X->col(b));
    }
};
struct CD
{
    const Mat* X;
    Counters* c;
    tapkee::ScalarType distance(int a, int b) const
    {
        c->d.fetch_add(1, std::memory_order_relaxed);
        return (X->col(a) - X->col(b)).norm();
    }
};
struct CF
{
    const Mat* X;
    Counters* c;
    tapkee::IndexType dimension() const
    {
        return (tapkee::IndexType)X->rows();
    }
    void vector(int a, tapkee::DenseVector& v) const
    {
        c->f.fetch_add(1, std::memory_order_relaxed);
        v = X->col(a);
    }
};

template <class F> Outcome guarded(F f)
{
    Outcome o;
    try
    {
        tapkee::TapkeeOutput& held = carried_output(); // see embed_api.hpp
        held = f();
        o.out = held;
        o.what = "ok";
    }
    catch (...)
    {
        classify_current_exception(o);
    }
    return o;
}
} // namespace

#if FORM >= 1 && FORM <= 7
#define CAT2(a, b) a##b
#define CAT(a, b) CAT2(a, b)
Outcome CAT(form_counting_, FORM)(int order, const Mat& X, tapkee::ParametersSet ps, Counters& cnt, bool use_range, int n_override)
{
    std::vector<int> idx((size_t)(n_override >= 0 ? n_override : X.cols()));
    for (size_t i = 0; i < idx.size(); ++i)
        idx[i] = (int)i;
    const std::vector<int>& cidx = idx; // one iterator type (const_iterator) for embedRange and embedUsing
    CK k{&X, &cnt};
    CD d{&X, &cnt};
    CF f{&X, &cnt};
    (void)k;
    (void)d;
    (void)f;
    (void)order;
    return guarded([&]() {
        auto P = tapkee::with(ps);
#if FORM == 1
        auto S = P.withKernel(k);
#elif FORM == 2
        auto S = P.withDistance(d);
#elif FORM == 4
        auto S = P.withFeatures(f);
#elif FORM == 3
        if (order % 2)
        {
            auto S2 = P.withDistance(d).withKernel(k);
            return use_range ? S2.embedRange(cidx.begin(), cidx.end()) : S2.embedUsing(cidx);
        }
        auto S = P.withKernel(k).withDistance(d);
#elif FORM == 5
        if (order % 2)
        {
            auto S2 = P.withFeatures(f).withKernel(k);
            return use_range ? S2.embedRange(cidx.begin(), cidx.end()) : S2.embedUsing(cidx);
        }
        auto S = P.withKernel(k).withFeatures(f);
#elif FORM == 6
        if (order % 2)
        {
            auto S2 = P.withFeatures(f).withDistance(d);
            return use_range ? S2.embedRange(cidx.begin(), cidx.end()) : S2.embedUsing(cidx);
        }
        auto S = P.withDistance(d).withFeatures(f);
#elif FORM == 7
        switch (order % 6)
        {
        case 1: {
            auto S2 = P.withKernel(k).withFeatures(f).withDistance(d);
            return use_range ? S2.embedRange(cidx.begin(), cidx.end()) : S2.embedUsing(cidx);
        }
        case 2: {
            auto S2 = P.withDistance(d).withKernel(k).withFeatures(f);
            return use_range ? S2.embedRange(cidx.begin(), cidx.end()) : S2.embedUsing(cidx);
        }
        case 3: {
            auto S2 = P.withDistance(d).withFeatures(f).withKernel(k);
            return use_range ? S2.embedRange(cidx.begin(), cidx.end()) : S2.embedUsing(cidx);
        }
        case 4: {
            auto S2 = P.withFeatures(f).withKernel(k).withDistance(d);
            return use_range ? S2.embedRange(cidx.begin(), cidx.end()) : S2.embedUsing(cidx);
        }
        case 5: {
            auto S2 = P.withFeatures(f).withDistance(d).withKernel(k);
            return use_range ? S2.embedRange(cidx.begin(), cidx.end()) : S2.embedUsing(cidx);
        }
        default:
            break;
        }
        auto S = P.withKernel(k).withDistance(d).withFeatures(f);
#endif
        return use_range ? S.embedRange(cidx.begin(), cidx.end()) : S.embedUsing(cidx);
    });
}
#endif

#if FORM == 7
Outcome form_counting_sequence(const Mat& X, tapkee::ParametersSet ps, Counters& cnt, const std::vector<int>& sequence)
{
    const std::vector<int>& cidx = sequence;
    CK k{&X, &cnt};
    CD d{&X, &cnt};
    CF f{&X, &cnt};
    return guarded([&]() { return tapkee::with(ps).withKernel(k).withDistance(d).withFeatures(f).embedRange(cidx.begin(), cidx.end()); });
}
#endif

#if FORM == 10
Outcome form_matrix(const Mat& X, tapkee::ParametersSet ps)
{
    tapkee::DenseMatrix M = X;
    return guarded([&]() { return tapkee::with(ps).embedUsing(M); });
}
// the library's own Eigen callbacks (what embedUsing(matrix) attaches) over an arbitrary index sequence
Outcome form_eigen_sequence(const Mat& X, tapkee::ParametersSet ps, const std::vector<int>& sequence)
{
    tapkee::DenseMatrix M = X;
    std::vector<tapkee::IndexType> idx(sequence.begin(), sequence.end());
    tapkee::eigen_kernel_callback kcb(M);
    tapkee::eigen_distance_callback dcb(M);
    tapkee::eigen_features_callback fcb(M);
    return guarded([&]() { return tapkee::embed(idx.begin(), idx.end(), kcb, dcb, fcb, ps); });
}
#endif

#if FORM == 11
Outcome form_precomputed(const Mat& X, tapkee::ParametersSet ps)
{
    int N = (int)X.cols();
    tapkee::DenseMatrix K(N, N), D(N, N), F = X;
    for (int a = 0; a < N; ++a)
        for (int b = 0; b < N; ++b)
        {
            K(a, b) = X.col(a).dot(X.col(b));
            D(a, b) = (X.col(a) - X.col(b)).norm();
        }
    std::vector<tapkee::IndexType> idx(N);
    for (int i = 0; i < N; ++i)
        idx[i] = i;
    tapkee::precomputed_kernel_callback kcb(K);
    tapkee::precomputed_distance_callback dcb(D);
    tapkee::eigen_features_callback fcb(F);
    return guarded([&]() { return tapkee::with(ps).withKernel(kcb).withDistance(dcb).withFeatures(fcb).embedRange(idx.begin(), idx.end()); });
}
Outcome form_precomputed_sequence(const Mat& X, tapkee::ParametersSet ps, const std::vector<int>& sequence)
{
    int N = (int)X.cols();
    tapkee::DenseMatrix K(N, N), D(N, N), F = X;
    for (int a = 0; a < N; ++a)
        for (int b = 0; b < N; ++b)
        {
            K(a, b) = X.col(a).dot(X.col(b));
            D(a, b) = (X.col(a) - X.col(b)).norm();
        }
    std::vector<tapkee::IndexType> idx(sequence.begin(), sequence.end());
    tapkee::precomputed_kernel_callback kcb(K);
    tapkee::precomputed_distance_callback dcb(D);
    tapkee::eigen_features_callback fcb(F);
    return guarded([&]() { return tapkee::with(ps).withKernel(kcb).withDistance(dcb).withFeatures(fcb).embedRange(idx.begin(), idx.end()); });
}
#endif

#if FORM == 12
namespace
{
struct Obj
{
    std::vector<double> v; // carries its own coordinates; no index into any matrix
    std::string label;
};
struct OK
{
    tapkee::ScalarType kernel(const Obj& a, const Obj& b) const
    {
        Eigen::Map<const Vec> x(a.v.data(), (long)a.v.size()), y(b.v.data(), (long)b.v.size());
        return x.dot(y);
    }
};
struct OD
{
    tapkee::ScalarType distance(const Obj& a, const Obj& b) const
    {
        Eigen::Map<const Vec> x(a.v.data(), (long)a.v.size()), y(b.v.data(), (long)b.v.size());
        return (x - y).norm();
    }
};
struct OF
{
    tapkee::IndexType dim;
    tapkee::IndexType dimension() const
    {
        return dim;
    }
    void vector(const Obj& a, tapkee::DenseVector& out) const
    {
        out = Eigen::Map<const Vec>(a.v.data(), (long)a.v.size());
    }
};
} // namespace
Outcome form_objects(const Mat& X, tapkee::ParametersSet ps, bool use_range)
{
    std::vector<Obj> objs((size_t)X.cols());
    for (int j = 0; j < X.cols(); ++j)
    {
        objs[j].v.assign(X.col(j).data(), X.col(j).data() + X.rows());
        objs[j].label = "sample";
    }
    OK k;
    OD d;
    OF f{(tapkee::IndexType)X.rows()};
    const std::vector<Obj>& cobjs = objs;
    return guarded([&]() {
        auto S = tapkee::with(ps).withFeatures(f).withKernel(k).withDistance(d);
        return use_range ? S.embedRange(cobjs.begin(), cobjs.end()) : S.embedUsing(cobjs);
    });
}
#endif
} // namespace vh
