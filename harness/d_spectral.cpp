// C05-C11: public-API outputs of the spectral methods vs independent dense references built from callback values.
#include "common/callbacks.hpp"
#include "common/refs.hpp"
#include <tapkee/neighbors/neighbors.hpp>
#include <tapkee/routines/landmarks.hpp>
#include <tapkee/routines/laplacian_eigenmaps.hpp>
#include <tapkee/routines/locally_linear.hpp>

using namespace vh;
using namespace tapkee;
using namespace tapkee::tapkee_internal;

namespace
{
typedef std::vector<int>::iterator It;
struct CbK
{
    MatrixCallbacks* c;
    double kernel(int a, int b) const
    {
        return c->kval(a, b);
    }
};
struct CbD
{
    MatrixCallbacks* c;
    double distance(int a, int b) const
    {
        return c->dval(a, b);
    }
};

struct Setup
{
    Mat X;
    int N, D, td;
    MatrixCallbacks* cb;
    std::vector<int> idx;
    Setup(const Case& c) : X(make_data(c)), N((int)X.cols()), D((int)X.rows()), td((int)c.i("td", 2)), cb(new MatrixCallbacks(X))
    {
        configure_callbacks(*cb, c);
        idx = iota_indices(N);
    }
    ~Setup()
    {
        delete cb;
    }
};

Outcome call(Setup& s, const Case& c)
{
    std::srand((unsigned)c.i("srand", 1));
    tapkee::verif::shuffle_seed((unsigned)c.i("shuffle", 1));
    if (c.i("ecb", 0) && c.s("kernel", "linear") == "linear" && c.s("dist", "l2") == "l2")
        return guarded_embed_eigen_subrange(s.X, (unsigned long)c.i("dseed", 1), params_from_case(c));
    if (c.i("plabel", 0))
    {
        // Permuted labels: the sample at position i is labelled perm[i] and its data live in column perm[i] of a storage
        // matrix. The embedding is still "row i describes the sample at position i", so every reference computed from s.X by
        // position stays valid; a library that confuses positions with the values the iterators point at does not.
        int N = s.N;
        std::vector<int> perm = iota_indices(N);
        Rng g((uint64_t)c.i("dseed", 1) * 31 + 7);
        g.shuffle(perm);
        Mat S(s.D, N);
        for (int i = 0; i < N; ++i)
            S.col(perm[i]) = s.X.col(i);
        MatrixCallbacks ecb(S);
        configure_callbacks(ecb, c);
        Outcome o = guarded_embed(perm, ecb, params_from_case(c));
        if (ecb.bad_labels.load() > 0)
        {
            o.what = "std::exception:callback-invoked-with-a-non-sample";
            o.documented = false;
        }
        return o;
    }
    return guarded_embed(s.idx, *s.cb, params_from_case(c));
}

bool expect_ok(const Outcome& o, Result& r, const std::string& what, int N, int td)
{
    if (o.what != "ok")
    {
        r.violation(what + ":throws", "threw " + o.what + ": " + o.message);
        return false;
    }
    if (o.out.embedding.rows() != N || o.out.embedding.cols() != td)
    {
        r.violation(what + ":shape", sf("%ldx%ld", (long)o.out.embedding.rows(), (long)o.out.embedding.cols()));
        return false;
    }
    return true;
}

Neighbors neighbours_of(Setup& s, const Case& c, bool kernel_based)
{
    CbK ck{s.cb};
    CbD cd{s.cb};
    std::srand((unsigned)c.i("srand", 1));
    NeighborsMethod nm = nm_by_name(c.s("nm", "brute"));
    int k = (int)c.i("k", 5);
    if (kernel_based)
        return find_neighbors(nm, s.idx.begin(), s.idx.end(), KernelDistance<It, CbK>(ck), k, c.i("conn", 1) != 0);
    return find_neighbors(nm, s.idx.begin(), s.idx.end(), PlainDistance<It, CbD>(cd), k, c.i("conn", 1) != 0);
}

// ------------------------------------------------------------------------------------------------ C05
void check_factor(const Mat& Y, const Mat& B, const Spectrum& sp, int td, Result& r, const std::string& tag, bool randomized)
{
    // "best rank-td positive semi-definite approximation": eigenvalues that are not positive contribute nothing, so the
    // expected squared column norms are max(lambda_i, 0) and the expected Gram matrix is sum_i max(lambda_i,0) u_i u_i^T
    double l1 = std::max(std::fabs(sp.vals(0)), std::fabs(sp.vals(sp.vals.size() - 1)));
    if (!(sp.vals(0) > 1e-9 * l1))
    {
        r.inconclusive.push_back("no positive eigenvalue at all");
        return;
    }
    if (!Y.allFinite())
    {
        r.violation(tag + ":nonfinite", "non-finite embedding");
        return;
    }
    int npos = 0; // retained eigenvalues that are clearly positive
    for (int j = 0; j < td; ++j)
        if (sp.vals(j) > 1e-9 * l1)
            ++npos;
    bool clamped = npos < td;
    if (clamped)
        r.tags.push_back("retained-nonpositive-eigenvalue");
    double tol_eig = randomized ? 1e-6 : 1e-9;
    Mat G = Y.transpose() * Y;
    double worst_res = 0;
    std::vector<double> norms;
    for (int j = 0; j < td; ++j)
    {
        double lam = G(j, j);
        norms.push_back(lam);
        if (lam <= 1e-9 * l1)
            continue; // a (numerically) zero column belongs to a clamped eigenvalue
        double res = (B * Y.col(j) - lam * Y.col(j)).norm() / (l1 * std::max(1e-300, Y.col(j).norm()));
        worst_res = std::max(worst_res, res);
    }
    r.maxnum(tag + "_residual", worst_res);
    if (worst_res > (randomized ? 1e-5 : 1e-8))
        r.violation(tag + ":not-eigenvectors", sf("||B y - |y|^2 y|| / (|B| |y|) = %.3g", worst_res));
    double off = 0;
    for (int i = 0; i < td; ++i)
        for (int j = 0; j < td; ++j)
            if (i != j)
                off = std::max(off, std::fabs(G(i, j)) / l1);
    r.maxnum(tag + "_offdiag", off);
    if (off > tol_eig * 10)
        r.violation(tag + ":columns-not-orthogonal", sf("max |y_i . y_j| / lambda_1 = %.3g", off));
    std::sort(norms.begin(), norms.end(), std::greater<double>());
    double worst = 0;
    for (int j = 0; j < td; ++j)
        worst = std::max(worst, std::fabs(norms[j] - std::max(0.0, sp.vals(j))) / l1);
    r.maxnum(tag + "_eigenvalue_dev", worst);
    if (worst > tol_eig)
        r.violation(tag + ":squared-norms-not-top-eigenvalues",
                    sf("max deviation %.3g of lambda_1 from max(lambda_i, 0) (td=%d, %d retained eigenvalues positive)", worst, td, npos));
    // Gram matrix vs the clamped truncation; the relevant gap is below the last positive retained eigenvalue
    int cut = std::max(1, npos);
    double gap = clamped ? (sp.vals(cut - 1) - std::max(0.0, cut < sp.vals.size() ? sp.vals(cut) : 0.0)) / l1 : rel_gap_desc(sp.vals, td);
    Mat U = sp.vecs.leftCols(cut);
    Vec l = sp.vals.head(cut).cwiseMax(0.0);
    Mat Bd = U * l.asDiagonal() * U.transpose();
    double err = (Y * Y.transpose() - Bd).norm() / std::max(Bd.norm(), 1e-300);
    r.maxnum(tag + "_gram_err", err);
    if (gap < 1e-6)
        r.inconclusive.push_back("eigen-gap at the cut below 1e-6: leading eigenspace not unique");
    else if (err > (randomized ? 1e-5 : 1e-9) / gap)
        r.violation(tag + ":gram-not-best-rank-d-psd", sf("||YY^T - B_d^+||/||B_d^+|| = %.3g (gap %.3g, %d of %d retained eigenvalues positive)", err, gap, npos, td));
}

void run_mds(const Case& c, Result& r)
{
    Setup s(c);
    std::string m = c.s("method", "mds");
    bool randomized = c.s("em") == "randomized";
    Mat B;
    if (m == "kpca")
        B = double_center(s.cb->kernel_matrix());
    else
    {
        Mat Dd = s.cb->distance_matrix();
        B = -0.5 * double_center(Dd.array().square().matrix());
    }
    Spectrum sp = sym_eig_desc(B);
    Outcome o = call(s, c);
    int rank = 0;
    for (int i = 0; i < sp.vals.size(); ++i)
        if (sp.vals(i) > 1e-10 * sp.vals(0))
            ++rank;
    if (!expect_ok(o, r, m + sf(":rank%std", rank < s.td ? "<" : rank == s.td ? "=" : ">"), s.N, s.td))
        return;
    const Mat& Y = o.out.embedding;
    if (randomized && rank > s.td)
    {
        // the randomized solver is only specified on inputs of rank <= td
        r.inconclusive.push_back("randomized solver on input of rank > td");
        return;
    }
    check_factor(Y, B, sp, s.td, r, m, randomized);
    // Euclidean-realisable input of dimension <= td: all pairwise distances reproduced
    if (m != "kpca" && c.s("dist", "l2") == "l2" && rank <= s.td)
    {
        if (!Y.allFinite())
        {
            r.violation(m + ":nonfinite-on-realisable-input", sf("non-finite embedding for Euclidean distances of points spanning %d <= td = %d dimensions (%s)",
                                                                rank, s.td, randomized ? "randomized" : "dense"));
            return;
        }
        Mat Dd = s.cb->distance_matrix();
        double dev = rel_diff(pairwise_dist(Y), Dd);
        r.maxnum(m + "_distance_dev", dev);
        r.tags.push_back("realisable");
        if (dev > (randomized ? 1e-6 : 1e-9))
            r.violation(m + ":distances-not-reproduced", sf("max |d_emb - d| / max d = %.3g (rank %d <= td %d, %s)", dev, rank, s.td,
                                                            randomized ? "randomized" : "dense"));
    }
    // Isomap with k = N-1 coincides with MDS
    if (m == "mds" && c.i("isomap", 0) && s.N >= 4 && !randomized)
    {
        Case ci = c;
        ci.kv["method"] = "isomap";
        ci.kv["k"] = sf("%d", s.N - 1);
        ci.kv["nm"] = c.s("nm", "brute");
        Outcome oi = call(s, ci);
        if (expect_ok(oi, r, "isomap-full", s.N, s.td) && sp.vals(s.td - 1) > 1e-9 * sp.vals(0))
        {
            double gap = rel_gap_desc(sp.vals, s.td);
            if (gap >= 1e-6)
            {
                double dev = rel_diff(oi.out.embedding * oi.out.embedding.transpose(), Y * Y.transpose());
                r.maxnum("isomap_full_vs_mds", dev);
                if (dev > 1e-9 / gap)
                    r.violation("isomap-full:differs-from-mds", sf("Gram matrices differ by %.3g (gap %.3g)", dev, gap));
            }
        }
    }
    r.nontrivial = true;
    r.tags.push_back(m + ":" + (randomized ? "randomized" : "dense"));
}

// ------------------------------------------------------------------------------------------------ C06 / C07
MatrixProjectionImplementation* proj_of(const Outcome& o)
{
    return dynamic_cast<MatrixProjectionImplementation*>(o.out.projection.implementation.get());
}

void run_pca(const Case& c, Result& r)
{
    Setup s(c);
    bool randomized = c.s("em") == "randomized";
    Vec mu = s.X.rowwise().mean();
    Mat Xc = s.X.colwise() - mu;
    Mat C = Xc * Xc.transpose() / s.N;
    Spectrum sp = sym_eig_desc(C);
    double l1 = std::max(sp.vals(0), 1e-300);
    Outcome o = call(s, c);
    if (!expect_ok(o, r, "pca", s.N, s.td))
        return;
    MatrixProjectionImplementation* pi = proj_of(o);
    if (!pi)
    {
        r.violation("pca:no-projection", "PCA returned no matrix projection");
        return;
    }
    const Mat& P = pi->proj_mat;
    const Mat& Y = o.out.embedding;
    if (P.rows() != s.D || P.cols() != s.td || pi->mean_vec.size() != s.D)
    {
        r.violation("pca:projection-shape", sf("P is %ldx%ld", (long)P.rows(), (long)P.cols()));
        return;
    }
    int rank = 0;
    for (int i = 0; i < sp.vals.size(); ++i)
        if (sp.vals(i) > 1e-12 * l1)
            ++rank;
    if (randomized && rank > s.td)
    {
        r.inconclusive.push_back("randomized solver on input of rank > td");
        return;
    }
    double scale = std::max(1e-300, s.X.cwiseAbs().maxCoeff());
    // mean and embedding = (X - mean)^T P
    double mdev = (pi->mean_vec - mu).cwiseAbs().maxCoeff() / scale;
    if (mdev > 1e-12)
        r.violation("pca:mean", sf("mean vector deviates by %.3g of the data scale", mdev));
    double edev = rel_diff(Y, Xc.transpose() * P);
    r.maxnum("pca_embedding_dev", edev);
    if (edev > 1e-10)
        r.violation("pca:embedding-not-projection-of-centred-samples", sf("deviation %.3g", edev));
    if (s.td > rank)
    {
        r.inconclusive.push_back("td exceeds the rank of the covariance");
        return;
    }
    double tolq = randomized ? 1e-6 : 1e-10;
    // The covariance is a difference of second moments and mean products: with a mean far from the origin, |x|^2 / lambda_1
    // digits cancel in ANY floating-point evaluation that does not centre first (the library's one-pass formula E[xx^T] - mm^T
    // is such an evaluation and a legitimate one). The value clauses are judged to that conditioning, not tighter.
    const double tol9 = std::max(randomized ? 1e-6 : 1e-9, 100 * 2.2e-16 * scale * scale / l1);
    double odev = (P.transpose() * P - Mat::Identity(s.td, s.td)).cwiseAbs().maxCoeff();
    r.maxnum("pca_orthonormality", odev);
    if (odev > tolq)
        r.violation("pca:columns-not-orthonormal", sf("|P^T P - I| = %.3g", odev));
    double gap = rel_gap_desc(sp.vals, s.td);
    // captured variance
    double cap = (P.transpose() * C * P).trace(), opt = sp.vals.head(s.td).sum();
    r.maxnum("pca_variance_shortfall", (opt - cap) / l1);
    if (std::fabs(opt - cap) > tol9 * l1)
        r.violation("pca:variance-not-optimal", sf("captured variance %.12g, optimum %.12g (lambda_1 %.3g)", cap, opt, l1));
    Rng g((uint64_t)c.i("dseed", 1) + 5);
    for (int t = 0; t < 50; ++t)
    {
        Mat Q = random_orthogonal(s.D, g).leftCols(s.td);
        double v = (Q.transpose() * C * Q).trace();
        if (v > cap + tol9 * l1)
        {
            r.violation("pca:random-frame-captures-more", sf("a random orthonormal frame captures %.12g > %.12g", v, cap));
            break;
        }
    }
    if (gap >= 1e-6)
    {
        double sd = subspace_dist(P, sp.vecs.leftCols(s.td));
        r.maxnum("pca_subspace_dist", sd);
        if (sd > tol9 / gap)
            r.violation("pca:not-principal-subspace", sf("distance to the leading eigenspace %.3g (gap %.3g)", sd, gap));
        // uncorrelated columns with the top eigenvalues as variances
        Mat Cy = Y.transpose() * Y / s.N;
        std::vector<double> var;
        double off = 0;
        for (int i = 0; i < s.td; ++i)
        {
            var.push_back(Cy(i, i));
            for (int j = 0; j < s.td; ++j)
                if (i != j)
                    off = std::max(off, std::fabs(Cy(i, j)) / l1);
        }
        std::sort(var.begin(), var.end(), std::greater<double>());
        double vd = 0;
        for (int i = 0; i < s.td; ++i)
            vd = std::max(vd, std::fabs(var[i] - sp.vals(i)) / l1);
        if (off > tol9 * 10 || vd > tol9)
            r.violation("pca:embedding-covariance", sf("off-diagonal %.3g, variance deviation %.3g (of lambda_1)", off, vd));
        // PCA == linear Kernel PCA == Euclidean MDS up to column signs (Gram matrices agree)
        if (!randomized && c.i("cross", 0))
        {
            for (const char* other : {"kpca", "mds"})
            {
                Case co = c;
                co.kv["method"] = other;
                co.kv["kernel"] = "linear";
                co.kv["dist"] = "l2";
                Setup s2(co);
                Outcome oo = call(s2, co);
                if (!expect_ok(oo, r, std::string("pca-vs-") + other, s.N, s.td))
                    continue;
                double dev = rel_diff(oo.out.embedding * oo.out.embedding.transpose(), Y * Y.transpose());
                r.maxnum(std::string("pca_vs_") + other, dev);
                // the Gram / distance matrix of uncentred data loses (|x|^2 / variance) digits when it is double-centred
                double cancel = std::max(1.0, scale * scale / l1);
                if (dev > 1e-9 * cancel / gap)
                    r.violation(std::string("pca:differs-from-") + other, sf("Gram matrices differ by %.3g (gap %.3g)", dev, gap));
                // column-wise up to sign when the retained eigenvalues are simple
                double mingap = 1;
                for (int i = 0; i < s.td; ++i)
                    mingap = std::min(mingap, (sp.vals(i) - (i + 1 < sp.vals.size() ? sp.vals(i + 1) : 0.0)) / l1);
                if (mingap >= 1e-6)
                {
                    Mat Z = align_signs(oo.out.embedding, Y);
                    double cd = rel_diff(Z, Y);
                    if (cd > 1e-8 * cancel / mingap)
                        r.violation(std::string("pca:columns-differ-from-") + other,
                                    sf("after sign alignment columns differ by %.3g (min gap %.3g)", cd, mingap));
                }
            }
        }
    }
    else
        r.inconclusive.push_back("eigen-gap at the cut below 1e-6");
    r.nontrivial = true;
    r.tags.push_back(std::string("pca:") + (randomized ? "randomized" : "dense"));
}

void run_proj(const Case& c, Result& r)
{
    Setup s(c);
    std::string m = c.s("method");
    Outcome o = call(s, c);
    bool projecting = (m == "pca" || m == "rp" || m == "npe" || m == "lltsa" || m == "lpp");
    if (o.what != "ok")
    {
        if (projecting)
            r.violation(m + ":throws", "threw " + o.what + ": " + o.message);
        else
            r.inconclusive.push_back("method threw " + o.what);
        return;
    }
    if (!projecting)
    {
        if (o.out.projection.implementation)
            r.violation(m + ":unexpected-projection", "a method without out-of-sample support returned a projection function");
        r.nontrivial = true;
        r.tags.push_back("empty-projection:" + m);
        return;
    }
    MatrixProjectionImplementation* pi = proj_of(o);
    if (!pi)
    {
        r.violation(m + ":no-projection", "no MatrixProjectionImplementation returned");
        return;
    }
    const Mat& Y = o.out.embedding;
    if (!Y.allFinite() || !pi->proj_mat.allFinite())
    {
        r.inconclusive.push_back("non-finite embedding (C01/C10 territory)");
        return;
    }
    double scale = std::max(1e-300, Y.cwiseAbs().maxCoeff());
    double xs = std::max(1e-300, s.X.cwiseAbs().maxCoeff());
    double pn = std::max(1e-300, pi->proj_mat.cwiseAbs().maxCoeff());
    double tol = 1e-10 * std::max(scale, xs * pn * s.D);
    ProjectingFunction f = o.out.projection;
    double worst = 0;
    for (int i = 0; i < s.N; ++i)
    {
        Vec p = f(s.X.col(i));
        if (p.size() != s.td)
        {
            r.violation(m + ":projection-dimension", sf("projection has %ld entries", (long)p.size()));
            return;
        }
        worst = std::max(worst, (p.transpose() - Y.row(i)).cwiseAbs().maxCoeff());
    }
    r.maxnum("proj_vs_embedding", worst / scale);
    if (worst > tol)
        r.violation(m + ":projection-differs-from-embedding", sf("max deviation %.3g (embedding scale %.3g)", worst, scale));
    Vec mu = s.X.rowwise().mean();
    double md = (pi->mean_vec - mu).cwiseAbs().maxCoeff();
    if (md > 1e-12 * xs)
        r.violation(m + ":mean-not-training-mean", sf("deviation %.3g", md));
    Rng g((uint64_t)c.i("dseed", 1) + 77);
    double aff = 0, frm = 0;
    for (int t = 0; t < 40; ++t)
    {
        Vec x(s.D), y(s.D);
        for (int i = 0; i < s.D; ++i)
        {
            x(i) = (t % 2) ? s.X(i, g.below(s.N)) : xs * 3 * g.gauss();
            y(i) = xs * 3 * g.gauss();
        }
        double a = g.uni(-1, 2);
        Vec lhs = f(a * x + (1 - a) * y), rhs = a * f(x) + (1 - a) * f(y);
        aff = std::max(aff, (lhs - rhs).cwiseAbs().maxCoeff());
        Vec formula = pi->proj_mat.transpose() * (x - pi->mean_vec);
        frm = std::max(frm, (f(x) - formula).cwiseAbs().maxCoeff());
    }
    double big = xs * 3 * pn * s.D * 4;
    if (aff > 1e-9 * std::max(big, scale))
        r.violation(m + ":not-affine", sf("affinity defect %.3g", aff));
    if (frm > 1e-12 * std::max(big, scale))
        r.violation(m + ":not-P^T(x-mean)", sf("deviation from the exposed (P, mean) %.3g", frm));
    r.nontrivial = true;
    r.addnum("projected_vectors", s.N + 40 * 4);
    r.tags.push_back("projection:" + m);
}

// ------------------------------------------------------------------------------------------------ C08
Mat dense(const SparseWeightMatrix& M)
{
    return Mat(M);
}

// reference (I-W)^T(I-W) + shift I with weights from the regularised local Gram system, QR instead of LDLT
Mat lle_reference(Setup& s, const Neighbors& nb, double kshift, double nshift)
{
    int N = s.N;
    Mat W = Mat::Zero(N, N);
    for (int i = 0; i < N; ++i)
    {
        int k = (int)nb[i].size();
        Mat G(k, k);
        for (int a = 0; a < k; ++a)
            for (int b = 0; b < k; ++b)
                G(a, b) = s.cb->kval(i, i) - s.cb->kval(i, nb[i][a]) - s.cb->kval(i, nb[i][b]) + s.cb->kval(nb[i][a], nb[i][b]);
        double tr = G.trace();
        G.diagonal().array() += kshift * tr;
        Vec w = G.colPivHouseholderQr().solve(Vec::Ones(k));
        w /= w.sum();
        for (int a = 0; a < k; ++a)
            W(i, nb[i][a]) += w(a);
    }
    Mat IW = Mat::Identity(N, N) - W;
    return IW.transpose() * IW + nshift * Mat::Identity(N, N);
}

// reference LTSA alignment matrix; min_gap returns the smallest local eigen-gap at the cut
Mat ltsa_reference(Setup& s, const Neighbors& nb, int td, double nshift, double& min_gap, double* cancellation = nullptr)
{
    int N = s.N;
    Mat M = nshift * Mat::Identity(N, N);
    min_gap = 1;
    for (int i = 0; i < N; ++i)
    {
        int k = (int)nb[i].size();
        Mat G(k, k);
        for (int a = 0; a < k; ++a)
            for (int b = 0; b < k; ++b)
                G(a, b) = s.cb->kval(nb[i][a], nb[i][b]);
        Mat Gc = double_center(G);
        // digits lost when the local Gram matrix is centred (a very wide RBF kernel has all its values near 1)
        if (cancellation)
            *cancellation = std::max(*cancellation, G.cwiseAbs().maxCoeff() / std::max(1e-300, Gc.cwiseAbs().maxCoeff()));
        Spectrum sp = sym_eig_desc(Gc);
        if (td < k)
            min_gap = std::min(min_gap, rel_gap_desc(sp.vals, td));
        Mat V = sp.vecs.leftCols(td);
        Mat Pm = Mat::Identity(k, k) - Mat::Constant(k, k, 1.0 / k) - V * V.transpose();
        for (int a = 0; a < k; ++a)
            for (int b = 0; b < k; ++b)
                M(nb[i][a], nb[i][b]) += Pm(a, b);
    }
    return M;
}

void run_lle(const Case& c, Result& r)
{
    Setup s(c);
    std::string m = c.s("method");
    double nshift = c.d("nshift", 1e-9), kshift = c.d("kshift", 1e-3);
    Neighbors nb = neighbours_of(s, c, true);
    CbK ck{s.cb};
    Mat M;
    if (m == "klle")
        M = dense(linear_weight_matrix(s.idx.begin(), s.idx.end(), nb, ck, nshift, kshift));
    else if (m == "kltsa")
        M = dense(tangent_weight_matrix(s.idx.begin(), s.idx.end(), nb, ck, s.td, nshift));
    else
        M = dense(hessian_weight_matrix(s.idx.begin(), s.idx.end(), nb, ck, s.td));
    double nM = std::max(1e-300, M.cwiseAbs().maxCoeff());
    if (m == "kltsa" && nM < 1e-6)
    {
        r.inconclusive.push_back("k = td + 1: every neighbourhood is fitted exactly, the alignment cost vanishes identically");
        return;
    }
    double asym = (M - M.transpose()).cwiseAbs().maxCoeff() / nM;
    if (asym > 1e-12)
        r.violation(m + ":alignment-matrix-asymmetric", sf("|M - M^T|/|M| = %.3g", asym));
    // independent assembly
    if (m == "klle")
    {
        Mat Mr = lle_reference(s, nb, kshift, nshift);
        double dev = (M - Mr).cwiseAbs().maxCoeff() / nM;
        r.maxnum("lle_M_dev", dev);
        if (dev > 1e-7)
            r.violation("klle:alignment-matrix-differs-from-(I-W)^T(I-W)", sf("entrywise deviation %.3g of max|M|", dev));
    }
    else if (m == "kltsa")
    {
        double mg = 1, cancel = 1;
        Mat Mr = ltsa_reference(s, nb, s.td, nshift, mg, &cancel);
        double dev = (M - Mr).cwiseAbs().maxCoeff() / nM;
        r.maxnum("ltsa_M_dev", dev);
        r.maxnum("ltsa_local_gram_cancellation", cancel);
        if (mg >= 1e-6)
        {
            // tangent bases are determined to (rounding of the centred Gram entries) / gap: 1e-8 in ordinary cases, more when
            // centring cancels many digits (measured: 1.5e-7 at gamma = 1e-7, cancellation 1e8, gap 0.09)
            if (dev > std::max(1e-8, 50 * 2.2e-16 * cancel) / mg)
                r.violation("kltsa:alignment-matrix-differs-from-reference", sf("entrywise deviation %.3g of max|M| (min local gap %.3g)", dev, mg));
        }
        else
            r.inconclusive.push_back("degenerate local tangent spectrum: alignment matrix not unique");
    }
    Spectrum sp = sym_eig_desc(M); // descending
    int N = s.N;
    Vec asc = sp.vals.reverse();
    Mat vasc = sp.vecs.rowwise().reverse();
    if (asc(0) < -1e-9 * nM)
        r.violation(m + ":alignment-matrix-not-psd", sf("smallest eigenvalue %.3g (|M| %.3g)", asc(0), nM));
    bool flat = c.s("data") == "flat" && c.i("q", 2) == s.td;
    if (m == "hlle")
    {
        double m1 = (M * Vec::Ones(N)).cwiseAbs().maxCoeff() / nM;
        if (m1 > 1e-9)
            r.violation("hlle:M1-not-zero", sf("|M 1| / |M| = %.3g", m1));
    }
    Outcome o = call(s, c);
    if (!expect_ok(o, r, m, N, s.td))
        return;
    const Mat& Y = o.out.embedding;
    if (!Y.allFinite())
    {
        r.violation(m + ":nonfinite", "non-finite embedding");
        return;
    }
    // which eigenvalues are "the td smallest non-trivial": skip the first one
    if (s.td + 1 > N)
        return;
    double gap_cut = (s.td + 1 < N) ? (asc(s.td + 1) - asc(s.td)) / nM : 1.0;
    double gap_triv = (asc(1) - asc(0)) / nM;
    double od = (Y.transpose() * Y - Mat::Identity(s.td, s.td)).cwiseAbs().maxCoeff();
    r.maxnum(m + "_orthonormality", od);
    if (od > 1e-8)
        r.violation(m + ":columns-not-orthonormal", sf("|Y^T Y - I| = %.3g", od));
    double worst = 0;
    for (int j = 0; j < s.td; ++j)
    {
        double rho = Y.col(j).dot(M * Y.col(j));
        worst = std::max(worst, (M * Y.col(j) - rho * Y.col(j)).norm() / nM);
    }
    r.maxnum(m + "_residual", worst);
    if (worst > 1e-8)
        r.violation(m + ":not-eigenvectors-of-alignment-matrix", sf("residual %.3g of |M|", worst));
    double cost = (Y.transpose() * M * Y).trace();
    double opt = asc.segment(1, s.td).sum();
    r.maxnum(m + "_cost_excess", (cost - opt) / nM);
    // With a (near-)degenerate trivial eigenvalue (flat data, HLLE) any eigenvector of that eigenspace may be skipped:
    // the optimum over Y orthogonal to the *constant* is then still sum of eigenvalues 1..td of the restricted problem.
    if (gap_triv >= 1e-7)
    {
        if (std::fabs(cost - opt) > 1e-9 * nM * s.td + 1e-6 * std::fabs(opt))
            r.violation(m + ":alignment-cost-not-minimal", sf("tr(Y^T M Y) = %.12g, minimum over centred orthonormal Y = %.12g (|M| %.3g)", cost, opt, nM));
        // constant vector unique minimiser => columns sum to zero
        Vec u0 = vasc.col(0);
        double constness = (u0 - Vec::Constant(N, u0.mean())).norm();
        if (constness < 1e-6)
        {
            double cs = (Y.transpose() * Vec::Ones(N)).cwiseAbs().maxCoeff() / std::sqrt((double)N);
            r.maxnum(m + "_colsum", cs);
            if (cs > 1e-9 / gap_triv)
                r.violation(m + ":columns-not-centred", sf("|1^T Y|/sqrt(N) = %.3g (trivial gap %.3g)", cs, gap_triv));
        }
        r.tags.push_back("unique-trivial");
    }
    else
    {
        // degenerate bottom eigenspace: cost must still not exceed the sum of the td+1 smallest minus the smallest
        if (cost > opt + 1e-9 * nM * s.td + 1e-6 * std::fabs(opt))
            r.violation(m + ":alignment-cost-not-minimal", sf("tr(Y^T M Y) = %.12g > %.12g", cost, opt));
    }
    if (flat && (m == "kltsa" || m == "hlle") && c.s("kernel", "linear") == "linear" && gap_cut > 1e-7)
    {
        // intrinsic coordinates: any affine parametrisation works; use the top-td principal coordinates of the data
        Vec mu = s.X.rowwise().mean();
        Mat Xc = s.X.colwise() - mu;
        Eigen::JacobiSVD<Mat> svd(Xc, Eigen::ComputeThinU | Eigen::ComputeThinV);
        Mat Z(N, s.td + 1);
        Z.col(0).setOnes();
        Z.rightCols(s.td) = svd.matrixV().leftCols(s.td);
        Eigen::ColPivHouseholderQR<Mat> qr(Z);
        double worst_aff = 0;
        for (int j = 0; j < s.td; ++j)
        {
            Vec coef = qr.solve(Y.col(j));
            worst_aff = std::max(worst_aff, (Z * coef - Y.col(j)).norm() / std::max(1e-300, Y.col(j).norm()));
        }
        r.maxnum(m + "_flat_affine_residual", worst_aff);
        r.tags.push_back("flat");
        if (worst_aff > 1e-6)
            r.violation(m + ":flat-data-not-affine", sf("a column is not an affine function of the intrinsic coordinates (residual %.3g)", worst_aff));
        if (m == "hlle")
        {
            double ann = (M * Z).cwiseAbs().maxCoeff() / nM;
            if (ann > 1e-8)
                r.violation("hlle:does-not-annihilate-affine-functions", sf("|M [1 Z]| / |M| = %.3g on flat data", ann));
            for (int a = 1; a <= s.td; ++a)
            {
                Vec q = Z.col(a).cwiseProduct(Z.col(a));
                q.array() -= q.mean();
                double val = q.dot(M * q) / (q.squaredNorm() * nM);
                if (!(val > 1e-9))
                    r.violation("hlle:quadratic-not-penalised", sf("q^T M q / (|q|^2 |M|) = %.3g for a squared coordinate", val));
            }
        }
    }
    r.nontrivial = true;
    r.tags.push_back(m + sf(":td%d", s.td));
}

// ------------------------------------------------------------------------------------------------ C09
void run_le(const Case& c, Result& r)
{
    Setup s(c);
    int N = s.N;
    double width = c.d("width", 1.0);
    Neighbors nb = neighbours_of(s, c, false);
    Mat A = Mat::Zero(N, N);
    for (int i = 0; i < N; ++i)
        for (int j : nb[i])
        {
            double d = s.cb->dval(i, j);
            A(i, j) = std::exp(-d * d / width);
        }
    Outcome o = call(s, c);
    {
        // heat weights that underflow leave samples without any edge: D is singular and the problem undefined
        Vec deg = (A + A.transpose()).rowwise().sum();
        if (!(deg.minCoeff() > 1e-250 * std::max(1e-300, deg.maxCoeff())) || !(deg.minCoeff() > 1e-290))
        {
            r.inconclusive.push_back("a sample has (numerically) zero degree: width too small for the data scale");
            r.str["le_zero_degree_outcome"] = o.what;
            return;
        }
    }
    if (!expect_ok(o, r, "le", N, s.td))
        return;
    const Mat& Y = o.out.embedding;
    if (!Y.allFinite())
    {
        r.violation("le:nonfinite", "non-finite embedding");
        return;
    }
    std::string why[2];
    bool fit = false;
    for (int variant = 0; variant < 2 && !fit; ++variant)
    {
        Mat W = variant == 0 ? Mat(A + A.transpose()) : Mat(A.cwiseMax(A.transpose()));
        Vec deg = W.rowwise().sum();
        if (deg.minCoeff() <= 0)
        {
            why[variant] = "zero degree";
            continue;
        }
        Mat Dg = deg.asDiagonal();
        Mat L = Dg - W;
        Spectrum sp = gen_eig_asc(L, Dg);
        double lmax = std::max(1e-300, sp.vals.cwiseAbs().maxCoeff());
        double dn = deg.maxCoeff();
        double od = (Y.transpose() * Dg * Y - Mat::Identity(s.td, s.td)).cwiseAbs().maxCoeff();
        double cs = (Y.transpose() * deg).cwiseAbs().maxCoeff() / (std::sqrt(deg.sum()));
        double res = 0;
        std::vector<double> rho;
        for (int j = 0; j < s.td; ++j)
        {
            double q = Y.col(j).dot(L * Y.col(j)) / Y.col(j).dot(Dg * Y.col(j));
            rho.push_back(q);
            res = std::max(res, (L * Y.col(j) - q * Dg * Y.col(j)).norm() / (dn * std::max(1e-300, Y.col(j).norm())));
        }
        std::sort(rho.begin(), rho.end());
        double ed = 0;
        for (int j = 0; j < s.td && j + 1 < N; ++j)
            ed = std::max(ed, std::fabs(rho[j] - sp.vals(j + 1)) / lmax);
        double gtriv = (sp.vals(1) - sp.vals(0)) / lmax;
        std::string msg;
        if (od > 1e-8)
            msg += sf("|Y^T D Y - I| = %.3g; ", od);
        if (gtriv >= 1e-7 && cs > 1e-9 / gtriv)
            msg += sf("|Y^T D 1| = %.3g; ", cs);
        if (res > 1e-8)
            msg += sf("residual %.3g; ", res);
        if (ed > 1e-8)
            msg += sf("eigenvalues deviate by %.3g from the smallest non-zero ones; ", ed);
        if (msg.empty())
        {
            fit = true;
            r.str["le_symmetrisation"] = variant == 0 ? "sum" : "max";
            r.maxnum("le_residual", res);
            r.maxnum("le_eigenvalue_dev", ed);
            if (gtriv < 1e-7)
                r.inconclusive.push_back("second generalised eigenvalue ~ 0: graph (nearly) disconnected");
        }
        else
            why[variant] = msg;
    }
    if (!fit)
        r.violation("le:not-a-solution-of-L-y=lambda-D-y", "W=A+A^T: " + why[0] + " | W=max(A,A^T): " + why[1]);
    r.nontrivial = true;
    r.tags.push_back("le");
}

void run_dm(const Case& c, Result& r)
{
    Setup s(c);
    int N = s.N;
    double width = c.d("width", 1.0);
    int t = (int)c.i("timesteps", 3);
    Mat K(N, N);
    for (int i = 0; i < N; ++i)
        for (int j = 0; j < N; ++j)
        {
            double d = s.cb->dval(i, j);
            K(i, j) = std::exp(-d * d / width);
        }
    Vec p = K.colwise().sum();
    for (int i = 0; i < N; ++i)
        for (int j = 0; j < N; ++j)
            K(i, j) /= p(i) * p(j);
    Vec q = K.colwise().sum().cwiseSqrt();
    for (int i = 0; i < N; ++i)
        for (int j = 0; j < N; ++j)
            K(i, j) /= q(i) * q(j);
    Spectrum sp = sym_eig_desc(K);
    Outcome o = call(s, c);
    if (!expect_ok(o, r, "dm", N, s.td))
        return;
    const Mat& Y = o.out.embedding;
    if (!K.allFinite())
    {
        r.inconclusive.push_back("kernel underflow: reference operator not finite");
        return;
    }
    double g0 = sp.vals(0) - sp.vals(1);
    if (g0 < 1e-6)
    {
        r.inconclusive.push_back("trivial eigenvalue not isolated (data numerically disconnected at this width): psi_0 not unique");
        return;
    }
    if (!Y.allFinite())
    {
        r.violation("dm:nonfinite", "non-finite embedding although the diffusion operator is finite and its trivial eigenvalue isolated");
        return;
    }
    Vec phi0 = sp.vecs.col(0);
    if (phi0.sum() < 0)
        phi0 = -phi0;
    std::vector<double> rho;
    int zero_columns = 0;
    double res = 0, scaledev = 0;
    for (int j = 0; j < s.td; ++j)
    {
        Vec z = Y.col(j).cwiseProduct(phi0);
        double zz = z.squaredNorm();
        if (!(zz > 0))
        {
            // lambda^t underflows for an eigenvalue that is zero up to rounding (rank-deficient kernel): such a column is
            // legitimately zero. The order of the columns is not fixed by the statement, so count: no more vanishing columns
            // than retained eigenvalues with lambda^t below 1e-100.
            int allowed = 0;
            for (int q = 1; q <= s.td && q < N; ++q)
                if (std::pow(std::fabs(sp.vals(q)), t) < 1e-100)
                    ++allowed;
            if (++zero_columns <= allowed)
            {
                rho.push_back(0.0);
                continue;
            }
            r.violation("dm:zero-column", sf("column %d vanishes (%d vanishing columns, %d retained eigenvalues with lambda^t < 1e-100)", j, zero_columns, allowed));
            return;
        }
        double rq = z.dot(K * z) / zz;
        rho.push_back(rq);
        res = std::max(res, (K * z - rq * z).norm() / std::sqrt(zz));
        // relative to lambda^t, except for eigenvalues that are zero up to rounding (rank-deficient kernel, e.g. exact duplicate
        // samples): there both sides are powers of rounding noise and only their smallness is meaningful
        scaledev = std::max(scaledev, std::fabs(std::sqrt(zz) - std::pow(std::fabs(rq), t)) / std::max(std::pow(1e-9, t), std::pow(std::fabs(rq), t)));
    }
    std::sort(rho.begin(), rho.end(), std::greater<double>());
    double ed = 0;
    for (int j = 0; j < s.td; ++j)
        ed = std::max(ed, std::fabs(rho[j] - sp.vals(j + 1)));
    r.maxnum("dm_residual", res);
    r.maxnum("dm_eigenvalue_dev", ed);
    r.maxnum("dm_scale_dev", scaledev);
    double tol = 1e-8 / std::min(1.0, g0);
    if (res > tol)
        r.violation("dm:columns-not-eigenfunctions", sf("residual of y*phi_0 as eigenvector of the diffusion operator: %.3g", res));
    else if (ed > tol)
        r.violation("dm:not-leading-nontrivial-eigenpairs", sf("Rayleigh quotients deviate by %.3g from the leading non-trivial eigenvalues", ed));
    else if (scaledev > 1e-6)
        r.violation("dm:scaling-not-lambda^t", sf("| |y phi_0| - lambda^t | / lambda^t = %.3g (t=%d)", scaledev, t));
    r.nontrivial = true;
    r.tags.push_back(sf("dm:t%d", t));
}

// ------------------------------------------------------------------------------------------------ C10
struct LinearProblem
{
    Mat A, B;
};

// variant (LPP only): 0 = W = A + A^T, 1 = W = max(A, A^T); the statement does not fix the symmetrisation (see C09)
LinearProblem linear_problem(Setup& s, const Case& c, const std::string& m, int variant = 0)
{
    LinearProblem lp;
    int N = s.N;
    CbK ck{s.cb};
    CbD cd{s.cb};
    Mat M, Bp;
    if (m == "npe")
    {
        Neighbors nb = neighbours_of(s, c, true);
        M = dense(linear_weight_matrix(s.idx.begin(), s.idx.end(), nb, ck, c.d("nshift", 1e-9), c.d("kshift", 1e-3)));
        Bp = Mat::Identity(N, N);
    }
    else if (m == "lltsa")
    {
        Neighbors nb = neighbours_of(s, c, true);
        // the alignment matrix proper: the diagonal regularisation shift only adds shift * B to the pencil (same eigenvectors)
        M = dense(tangent_weight_matrix(s.idx.begin(), s.idx.end(), nb, ck, s.td, c.d("nshift", 1e-9))) - c.d("nshift", 1e-9) * Mat::Identity(N, N);
        Bp = Mat::Identity(N, N) - Mat::Constant(N, N, 1.0 / N);
    }
    else
    {
        // graph Laplacian and degree matrix written out from the statement (heat weights on neighbour pairs, made symmetric)
        Neighbors nb = neighbours_of(s, c, false);
        double width = c.d("width", 1.0);
        Mat Aw = Mat::Zero(N, N);
        for (int i = 0; i < N; ++i)
            for (int j : nb[i])
            {
                double d = s.cb->dval(i, j);
                Aw(i, j) = std::exp(-d * d / width);
            }
        Mat W = variant == 0 ? Mat(Aw + Aw.transpose()) : Mat(Aw.cwiseMax(Aw.transpose()));
        Vec deg = W.rowwise().sum();
        Bp = deg.asDiagonal();
        M = Bp - W;
    }
    lp.A = s.X * M * s.X.transpose();
    lp.B = s.X * Bp * s.X.transpose();
    return lp;
}

void run_lin(const Case& c, Result& r)
{
    Setup s(c);
    std::string m = c.s("method");
    LinearProblem lp = linear_problem(s, c, m);
    // conditioning of the pencil first: for a width far below the squared neighbour distances heat weights underflow, samples
    // lose all their edges and B = X D X^T is singular (the problem is then undefined whatever the implementation does)
    Eigen::SelfAdjointEigenSolver<Mat> eb0(0.5 * (lp.B + lp.B.transpose()));
    double condB0 = eb0.eigenvalues().maxCoeff() / std::max(1e-300, eb0.eigenvalues().minCoeff());
    if (!(eb0.eigenvalues().minCoeff() > 0) || !(condB0 < 1e8) || !lp.A.allFinite() || !lp.B.allFinite())
    {
        r.inconclusive.push_back("right-hand side matrix singular or ill-conditioned");
        r.num["condB"] = condB0;
        return;
    }
    Spectrum sp = gen_eig_asc(lp.A, lp.B);
    Outcome o = call(s, c);
    if (!expect_ok(o, r, m, s.N, s.td))
        return;
    MatrixProjectionImplementation* pi = proj_of(o);
    if (!pi)
    {
        r.violation(m + ":no-projection", "no projection matrix returned");
        return;
    }
    const Mat& P = pi->proj_mat;
    const Mat& Y = o.out.embedding;
    if (!P.allFinite() || !Y.allFinite())
    {
        r.violation(m + ":nonfinite", "non-finite projection matrix or embedding");
        return;
    }
    if (m == "lpp")
    {
        // take whichever symmetrisation the returned columns fit better, then judge against that one
        LinearProblem alt = linear_problem(s, c, m, 1);
        auto worst = [&](const LinearProblem& q) {
            double w = 0, a = std::max(1e-300, q.A.cwiseAbs().maxCoeff()), b = std::max(1e-300, q.B.cwiseAbs().maxCoeff());
            for (int j = 0; j < s.td; ++j)
            {
                Vec pj = P.col(j);
                double t = pj.dot(q.A * pj) / pj.dot(q.B * pj);
                w = std::max(w, (q.A * pj - t * q.B * pj).norm() / ((a + std::fabs(t) * b) * std::max(1e-300, pj.norm())));
            }
            return w;
        };
        if (alt.A.allFinite() && alt.B.allFinite() && worst(alt) < worst(lp))
        {
            lp = alt;
            sp = gen_eig_asc(lp.A, lp.B);
            r.str["lpp_symmetrisation"] = "max";
        }
        else
            r.str["lpp_symmetrisation"] = "sum";
    }
    double nA = std::max(1e-300, lp.A.cwiseAbs().maxCoeff()), nB = std::max(1e-300, lp.B.cwiseAbs().maxCoeff());
    double lmax = std::max(1e-300, sp.vals.cwiseAbs().maxCoeff());
    std::vector<double> rho;
    double res = 0;
    for (int j = 0; j < s.td; ++j)
    {
        Vec pj = P.col(j);
        double q = pj.dot(lp.A * pj) / pj.dot(lp.B * pj);
        rho.push_back(q);
        res = std::max(res, (lp.A * pj - q * lp.B * pj).norm() / ((nA + std::fabs(q) * nB) * std::max(1e-300, pj.norm())));
    }
    std::sort(rho.begin(), rho.end());
    double ed = 0;
    for (int j = 0; j < s.td; ++j)
        ed = std::max(ed, std::fabs(rho[j] - sp.vals(j)) / lmax);
    r.maxnum(m + "_residual", res);
    r.maxnum(m + "_eigenvalue_dev", ed);
    // conditioning of the pencil: B may be close to singular for correlated features
    Eigen::SelfAdjointEigenSolver<Mat> eb(0.5 * (lp.B + lp.B.transpose()));
    double condB = eb.eigenvalues().maxCoeff() / std::max(1e-300, eb.eigenvalues().minCoeff());
    r.num["condB"] = condB;
    if (!(condB > 0) || condB > 1e8)
    {
        r.inconclusive.push_back("right-hand side matrix ill-conditioned");
        return;
    }
    double tol = 1e-9 * condB;
    if (res > std::max(1e-8, tol))
        r.violation(m + ":columns-do-not-solve-the-full-eigenproblem",
                    sf("||A p - rho B p|| / ((|A| + |rho||B|) |p|) = %.3g with A = X M X^T, B = X B' X^T fully populated (cond B %.3g)", res, condB));
    else if (ed > std::max(1e-8, tol))
        r.violation(m + ":not-the-smallest-eigenvalues", sf("Rayleigh quotients deviate by %.3g (of max eigenvalue) from the td smallest", ed));
    // embedding = centred samples projected
    Vec mu = s.X.rowwise().mean();
    Mat Xc = s.X.colwise() - mu;
    double edv = rel_diff(Y, Xc.transpose() * P);
    if (edv > 1e-10)
        r.violation(m + ":embedding-not-projection", sf("embedding differs from (X - mean)^T P by %.3g", edv));
    // metamorphic: rotate the feature space
    if (c.i("rotate", 1))
    {
        Rng g((uint64_t)c.i("dseed", 1) + 1234);
        Mat Q = random_orthogonal(s.D, g);
        Case c2 = c;
        Setup s2(c2);
        s2.X = Q * s.X;
        delete s2.cb;
        s2.cb = new MatrixCallbacks(s2.X);
        configure_callbacks(*s2.cb, c2);
        Outcome o2 = call(s2, c2);
        if (expect_ok(o2, r, m + "-rotated", s.N, s.td))
        {
            // gaps between consecutive retained eigenvalues and at the cut
            double mingap = 1;
            for (int j = 0; j < s.td && j + 1 < sp.vals.size(); ++j)
                mingap = std::min(mingap, (sp.vals(j + 1) - sp.vals(j)) / lmax);
            if (mingap >= 1e-6 && o2.out.embedding.allFinite())
            {
                Mat Z = align_signs(o2.out.embedding, Y);
                double dev = rel_diff(Z, Y);
                r.maxnum(m + "_rotation_dev", dev);
                if (dev > 1e-7 * condB / mingap)
                    r.violation(m + ":not-rotation-equivariant",
                                sf("rotating the feature space changes the embedding by %.3g (after column-sign alignment; min gap %.3g, cond B %.3g)",
                                   dev, mingap, condB));
                MatrixProjectionImplementation* p2 = proj_of(o2);
                if (p2)
                {
                    Mat P2 = align_signs(p2->proj_mat, Q * P);
                    double pdv = rel_diff(P2, Q * P);
                    if (pdv > 1e-7 * condB / mingap)
                        r.violation(m + ":projection-not-rotated", sf("P' differs from Q P by %.3g", pdv));
                }
            }
            else
                r.inconclusive.push_back("retained eigenvalues not simple: rotation pair not comparable column-wise");
        }
    }
    r.nontrivial = true;
    r.tags.push_back(m);
}

// ------------------------------------------------------------------------------------------------ C11
void run_landmark_selection(const Case& c, Result& r)
{
    int N = (int)c.i("N", 20);
    std::vector<int> idx = iota_indices(N);
    long calls = 0;
    Rng g((uint64_t)c.i("dseed", 1));
    for (int t = 0; t < (int)c.i("reps", 200); ++t)
    {
        double ratio;
        int kind = g.below(4);
        if (kind == 0)
            ratio = 3.0 / N;
        else if (kind == 1)
            ratio = 1.0;
        else if (kind == 2)
            ratio = (double)g.range(3, N) / N;
        else
            ratio = g.uni(3.0 / N, 1.0);
        tapkee::verif::shuffle_seed((unsigned)g.next());
        Landmarks lm = select_landmarks_random(idx.begin(), idx.end(), ratio);
        ++calls;
        size_t expect = (size_t)(int)((double)N * ratio);
        std::set<int> s(lm.begin(), lm.end());
        if (lm.size() != expect)
        {
            r.violation("landmarks:count", sf("%zu landmarks for ratio %.17g * N=%d (integer part %zu)", lm.size(), ratio, N, expect));
            return;
        }
        if (s.size() != lm.size() || (!s.empty() && (*s.begin() < 0 || *s.rbegin() >= N)))
        {
            r.violation("landmarks:not-distinct-in-range", sf("ratio %.17g N=%d", ratio, N));
            return;
        }
    }
    r.num["selections"] = (double)calls;
    r.nontrivial = true;
    r.tags.push_back("selection");
}

void run_lmds(const Case& c, Result& r)
{
    Setup s(c);
    int N = s.N;
    double ratio = c.d("ratio", 0.5);
    // learn the landmark subset: same shuffle seed, same call
    tapkee::verif::shuffle_seed((unsigned)c.i("shuffle", 1));
    Landmarks S = select_landmarks_random(s.idx.begin(), s.idx.end(), ratio);
    int L = (int)S.size();
    Outcome o = call(s, c);
    if (s.td >= L)
    {
        r.inconclusive.push_back("td >= number of landmarks");
        return;
    }
    if (!expect_ok(o, r, "lmds", N, s.td))
        return;
    const Mat& Y = o.out.embedding;
    // reference on the landmark subset
    Mat DS(L, L);
    for (int a = 0; a < L; ++a)
        for (int b = 0; b < L; ++b)
            DS(a, b) = s.cb->dval(S[a], S[b]);
    Mat D2 = DS.array().square().matrix();
    Mat B = -0.5 * double_center(D2);
    Spectrum sp = sym_eig_desc(B);
    double l1 = std::max(1e-300, sp.vals(0));
    if (!(sp.vals(s.td - 1) > 1e-9 * l1))
    {
        r.inconclusive.push_back("a retained landmark eigenvalue is not positive");
        r.str["lmds_zero_eig"] = Y.allFinite() ? "finite" : "nonfinite";
        return;
    }
    if (!Y.allFinite())
    {
        r.violation("lmds:nonfinite", "non-finite embedding although the retained landmark eigenvalues are positive");
        return;
    }
    Mat YS(L, s.td);
    for (int a = 0; a < L; ++a)
        YS.row(a) = Y.row(S[a]);
    double gap = rel_gap_desc(sp.vals, s.td);
    // (b1) landmark rows = plain MDS of the subset through the public API
    {
        std::vector<int> sub(S.begin(), S.end());
        Case cm = c;
        cm.kv["method"] = "mds";
        std::srand(1);
        Outcome om = guarded_embed(sub, *s.cb, params_from_case(cm));
        if (om.what == "ok" && gap >= 1e-6)
        {
            double dev = rel_diff(YS * YS.transpose(), om.out.embedding * om.out.embedding.transpose());
            r.maxnum("lmds_landmarks_vs_mds", dev);
            if (dev > 1e-9 / gap)
                r.violation("lmds:landmarks-not-embedded-as-mds-of-the-subset", sf("Gram matrices differ by %.3g (gap %.3g, %d landmarks)", dev, gap, L));
        }
        else if (om.what != "ok")
            r.violation("lmds:mds-on-subset-throws", om.what);
    }
    // (b2) all rows = -1/2 Lambda^{-1/2} U^T (delta^2 - mean delta^2), up to column signs
    double mingap = 1;
    for (int j = 0; j < s.td; ++j)
        mingap = std::min(mingap, (sp.vals(j) - sp.vals(j + 1)) / l1);
    if (mingap >= 1e-6)
    {
        Vec mean2 = D2.colwise().mean();
        Mat Yref(N, s.td);
        // implementation orders columns by ascending eigenvalue; compare as sets of columns matched by eigenvalue order
        for (int i = 0; i < N; ++i)
        {
            Vec d2(L);
            for (int a = 0; a < L; ++a)
            {
                double d = s.cb->dval(i, S[a]);
                d2(a) = d * d;
            }
            for (int j = 0; j < s.td; ++j)
            {
                int e = s.td - 1 - j; // ascending order of the retained eigenvalues
                Yref(i, j) = -0.5 * sp.vecs.col(e).dot(d2 - mean2) / std::sqrt(sp.vals(e));
            }
        }
        // landmark rows of the reference are exact MDS coordinates; non-landmark rows are triangulated
        Mat Z = align_signs(Y, Yref);
        double dev = rel_diff(Z, Yref);
        r.maxnum("lmds_triangulation_dev", dev);
        if (dev > 1e-8 / mingap)
            r.violation("lmds:triangulation-differs-from-reference",
                        sf("embedding differs from -1/2 L^-1/2 U^T (d^2 - mean d^2) by %.3g after sign alignment (min gap %.3g)", dev, mingap));
    }
    else
        r.inconclusive.push_back("retained landmark eigenvalues not simple");
    // (c) Euclidean data of intrinsic dimension <= td, landmarks affinely spanning => distances reproduced
    if (c.s("data") == "flat" && c.s("dist", "l2") == "l2")
    {
        int q = (int)c.i("q", 2);
        Mat XS(s.D, L);
        for (int a = 0; a < L; ++a)
            XS.col(a) = s.X.col(S[a]);
        Vec mu = XS.rowwise().mean();
        Eigen::JacobiSVD<Mat> svd(XS.colwise() - mu);
        int arank = 0;
        for (int i = 0; i < svd.singularValues().size(); ++i)
            if (svd.singularValues()(i) > 1e-9 * svd.singularValues()(0))
                ++arank;
        if (q == s.td && arank == q)
        {
            double cond = svd.singularValues()(0) / svd.singularValues()(q - 1);
            double dev = rel_diff(pairwise_dist(Y), s.cb->distance_matrix());
            r.maxnum("lmds_distance_dev", dev);
            r.tags.push_back("spanning-landmarks");
            if (dev > 1e-9 * cond * cond)
                r.violation("lmds:distances-not-reproduced", sf("max |d_emb - d| / max d = %.3g (landmark condition %.3g, %d landmarks)", dev, cond, L));
        }
        else
            r.tags.push_back("non-spanning-or-q<td");
    }
    r.nontrivial = true;
    r.tags.push_back("lmds");
}

void run_ratio1(const Case& c, Result& r)
{
    // landmark_ratio = 1: both landmark methods coincide with their counterparts up to column signs
    Setup s(c);
    std::string m = c.s("method"); // lmds or lisomap
    std::string plain = m == "lmds" ? "mds" : "isomap";
    Case c1 = c;
    c1.kv["ratio"] = "1";
    Outcome a = call(s, c1);
    Case c2 = c;
    c2.kv["method"] = plain;
    c2.kv.erase("ratio");
    Outcome b = call(s, c2);
    if (!expect_ok(a, r, m, s.N, s.td) || !expect_ok(b, r, plain, s.N, s.td))
        return;
    if (!a.out.embedding.allFinite() || !b.out.embedding.allFinite())
    {
        r.inconclusive.push_back("non-finite embedding (negative retained eigenvalue)");
        return;
    }
    Mat Ga = a.out.embedding * a.out.embedding.transpose(), Gb = b.out.embedding * b.out.embedding.transpose();
    Spectrum sp = sym_eig_desc(Gb);
    // gap of the counterpart's problem is not observable from its rank-td Gram; recompute the reference matrix for MDS
    double gap = 1;
    {
        // reference spectrum: for Landmark Isomap with k = N-1 the graph is complete and the geodesics are the distances
        // themselves, so the MDS matrix gives the gap; with k < N-1 any difference is reported under the directed-graph key
        Mat B = -0.5 * double_center(s.cb->distance_matrix().array().square().matrix());
        Spectrum sb = sym_eig_desc(B);
        gap = rel_gap_desc(sb.vals, s.td);
        if (!(sb.vals(s.td - 1) > 1e-9 * sb.vals(0)))
        {
            r.inconclusive.push_back("retained eigenvalue not positive");
            return;
        }
    }
    double dev = rel_diff(Ga, Gb);
    r.maxnum(m + "_ratio1_dev", dev);
    if (gap < 1e-6)
        r.inconclusive.push_back("eigen-gap below 1e-6");
    else if (dev > 1e-8 / gap)
    {
        // with k < N-1 the k-NN relation is directed and the geodesic matrix asymmetric (recorded separately, see known findings)
        bool directed = m == "lisomap" && c.i("k", 0) < s.N - 1;
        r.violation(m + ":ratio-1-differs-from-" + plain + (directed ? ":directed-knn-graph" : ""),
                    sf("Gram matrices differ by %.3g (gap %.3g, N=%d k=%ld td=%d)", dev, gap, s.N, c.i("k", 0), s.td));
    }
    r.nontrivial = true;
    r.tags.push_back(m + ":ratio1");
}

void run_case(const Case& c, Result& r)
{
    std::string mode = c.s("mode");
    if (mode == "mds")
        run_mds(c, r);
    else if (mode == "pca")
        run_pca(c, r);
    else if (mode == "proj")
        run_proj(c, r);
    else if (mode == "lle")
        run_lle(c, r);
    else if (mode == "le")
        run_le(c, r);
    else if (mode == "dm")
        run_dm(c, r);
    else if (mode == "lin")
        run_lin(c, r);
    else if (mode == "lmsel")
        run_landmark_selection(c, r);
    else if (mode == "lmds")
        run_lmds(c, r);
    else if (mode == "ratio1")
        run_ratio1(c, r);
    else
    {
        fprintf(stderr, "unknown mode %s\n", mode.c_str());
        exit(2);
    }
}
} // namespace

int main(int argc, char** argv)
{
    return driver_main(argc, argv, run_case, vh::install_tick);
}
