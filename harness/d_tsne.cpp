// C17 (t-SNE similarities and gradient) and C18 (Barnes-Hut quadtree): white-box calls on small inputs.
// Compiled with -fno-access-control so private members of tsne::TSNE / tsne::QuadTree are reachable.
#include "common/callbacks.hpp"
#include "common/refs.hpp"
#include <tapkee/defines.hpp>
#include <tapkee/external/barnes_hut_sne/tsne.hpp>

#include <omp.h>

using namespace vh;

namespace
{
// ------------------------------------------------------------------------------------------- C18
struct CellInfo
{
    tsne::QuadTree* q;
    std::vector<int> members; // indices routed into this subtree (absorbed duplicates included)
};

// point sets: rows = points (N x 2, row-major as the tree expects)
std::vector<double> make_points(const Case& c, int& N, bool& explicit_box)
{
    std::string kind = c.s("pts", "gauss");
    N = (int)c.i("N", 50);
    Rng g((uint64_t)c.i("pseed", 1) * 31 + 3);
    std::vector<double> P(2 * (size_t)N);
    explicit_box = false;
    if (kind == "gauss")
        for (auto& v : P)
            v = g.gauss() * c.d("scale", 1.0);
    else if (kind == "clustered")
    {
        int nc = 1 + g.below(5);
        std::vector<double> ctr(2 * nc);
        for (auto& v : ctr)
            v = 50 * g.gauss();
        for (int i = 0; i < N; ++i)
        {
            int k = g.below(nc);
            double s = std::pow(10.0, -g.below(4));
            P[2 * i] = ctr[2 * k] + s * g.gauss();
            P[2 * i + 1] = ctr[2 * k + 1] + s * g.gauss();
        }
    }
    else if (kind == "collinear")
    {
        bool horiz = g.uni() < 0.5;
        double a = g.gauss(), b = g.gauss();
        for (int i = 0; i < N; ++i)
        {
            double t = g.uni(-5, 5);
            if (c.i("axis", 1))
            {
                P[2 * i] = horiz ? t : 0.75;
                P[2 * i + 1] = horiz ? 0.75 : t;
            }
            else
            {
                P[2 * i] = t;
                P[2 * i + 1] = a * t + b;
            }
        }
    }
    else if (kind == "coincident")
    {
        int nb = std::max(1, N / std::max(1, (int)c.i("copies", 3)));
        std::vector<double> B(2 * nb);
        for (auto& v : B)
            v = g.gauss();
        for (int i = 0; i < N; ++i)
        {
            int k = g.below(nb);
            P[2 * i] = B[2 * k];
            P[2 * i + 1] = B[2 * k + 1];
        }
    }
    else if (kind == "dyadic")
    {
        // points on dyadic cell boundaries of the explicit box [-1,1]^2
        explicit_box = true;
        std::set<std::pair<int, int>> used;
        int m = 1 << (1 + g.below(5));
        while ((2 * m + 1) * (2 * m + 1) < 2 * N)
            m *= 2;
        for (int i = 0; i < N; ++i)
        {
            int a, b, guard = 0;
            do
            {
                a = g.range(-m, m);
                b = g.range(-m, m);
            } while (!used.insert({a, b}).second && ++guard < 1000);
            P[2 * i] = (double)a / m;
            P[2 * i + 1] = (double)b / m;
        }
    }
    else if (kind == "wide")
    {
        double dec = c.d("decades", 6);
        for (auto& v : P)
            v = (g.uni() < 0.5 ? -1 : 1) * std::pow(10.0, g.uni(-dec, dec));
    }
    else if (kind == "farline")
    {
        // axis-parallel line whose constant coordinate is huge: cells run out of resolution along one axis only
        bool vertical = g.uni() < 0.5;
        double cst = c.d("far", 1e12) * (g.uni() < 0.5 ? -1 : 1);
        for (int i = 0; i < N; ++i)
        {
            double t = g.uni(-5, 5);
            P[2 * i] = vertical ? cst : t;
            P[2 * i + 1] = vertical ? t : cst;
        }
    }
    else if (kind == "thin")
    {
        // a cluster that is a few ulps wide along x and far narrower along y, inside an ordinary cloud
        for (int i = 0; i < N; ++i)
        {
            if (i < N / 2)
            {
                P[2 * i] = 1.0 + (double)g.below(64) * 2.220446049250313e-16;
                P[2 * i + 1] = (double)g.below(1000) * 1e-18;
            }
            else
            {
                P[2 * i] = g.gauss();
                P[2 * i + 1] = g.gauss();
            }
        }
    }
    else if (kind == "nearpairs")
    {
        // pairs of distinct points at tiny separations
        for (int i = 0; i < N; i += 2)
        {
            double x = g.gauss(), y = g.gauss();
            double s = std::pow(10.0, -g.uni(6, 15));
            P[2 * i] = x;
            P[2 * i + 1] = y;
            if (i + 1 < N)
            {
                P[2 * i + 2] = x + s * g.gauss();
                P[2 * i + 3] = y + s * g.gauss();
            }
        }
    }
    return P;
}

bool collect(tsne::QuadTree* q, std::vector<CellInfo>& cells, std::vector<int>& stored, Result& r, int depth)
{
    if (depth > 1200)
    {
        r.violation("qt:too-deep", "tree deeper than 1200 levels");
        return false;
    }
    cells.push_back({q, {}});
    if (q->is_leaf)
    {
        if (q->size < 0 || q->size > 1)
        {
            r.violation("qt:leaf-size", sf("leaf size %d", q->size));
            return false;
        }
        for (int i = 0; i < q->size; ++i)
            stored.push_back(q->index[i]);
        return true;
    }
    if (q->size != 0)
    {
        r.violation("qt:inner-holds-point", sf("inner cell size %d", q->size));
        return false;
    }
    for (tsne::QuadTree* ch : {q->northWest, q->northEast, q->southWest, q->southEast})
    {
        if (!ch)
        {
            r.violation("qt:missing-child", "inner cell without four children");
            return false;
        }
        if (ch->parent != q)
        {
            r.violation("qt:parent-pointer", "child's parent pointer wrong");
            return false;
        }
        if (!collect(ch, cells, stored, r, depth + 1))
            return false;
    }
    return true;
}

// returns members of subtree
void members_of(tsne::QuadTree* q, const std::map<int, std::vector<int>>& absorbed, std::vector<int>& out)
{
    if (q->is_leaf)
    {
        for (int i = 0; i < q->size; ++i)
        {
            auto it = absorbed.find(q->index[i]);
            if (it != absorbed.end())
                out.insert(out.end(), it->second.begin(), it->second.end());
        }
        return;
    }
    members_of(q->northWest, absorbed, out);
    members_of(q->northEast, absorbed, out);
    members_of(q->southWest, absorbed, out);
    members_of(q->southEast, absorbed, out);
}

bool check_cells(tsne::QuadTree* q, const std::vector<double>& P, const std::map<int, std::vector<int>>& absorbed, double box,
                 Result& r, long& ncells)
{
    std::vector<int> mem;
    members_of(q, absorbed, mem);
    ++ncells;
    if (q->cum_size != (int)mem.size())
    {
        r.violation("qt:mass", sf("cell cum_size %d but %zu points routed inside", q->cum_size, mem.size()));
        return false;
    }
    if (!mem.empty())
    {
        double mx = 0, my = 0;
        for (int i : mem)
        {
            mx += P[2 * i];
            my += P[2 * i + 1];
            // borders of adjacent cells are rounded independently: allow a few ulps
            double tx = 8e-16 * (std::fabs(q->boundary.x) + q->boundary.hw), ty = 8e-16 * (std::fabs(q->boundary.y) + q->boundary.hh);
            bool inside = P[2 * i] >= q->boundary.x - q->boundary.hw - tx && P[2 * i] <= q->boundary.x + q->boundary.hw + tx &&
                          P[2 * i + 1] >= q->boundary.y - q->boundary.hh - ty && P[2 * i + 1] <= q->boundary.y + q->boundary.hh + ty;
            if (!inside)
            {
                r.violation("qt:member-outside-box", sf("point %d lies outside the box of a cell that counts it", i));
                return false;
            }
        }
        mx /= mem.size();
        my /= mem.size();
        double tol = 1e-9 * box;
        if (std::fabs(mx - q->center_of_mass[0]) > tol || std::fabs(my - q->center_of_mass[1]) > tol)
        {
            r.violation("qt:centre-of-mass", sf("centre of mass (%g,%g) but mean of members (%g,%g), %zu members", q->center_of_mass[0],
                                                 q->center_of_mass[1], mx, my, mem.size()));
            return false;
        }
    }
    if (!q->is_leaf)
        for (tsne::QuadTree* ch : {q->northWest, q->northEast, q->southWest, q->southEast})
            if (!check_cells(ch, P, absorbed, box, r, ncells))
                return false;
    return true;
}

double envelope(double theta)
{
    return std::min(1.5, 2.0 * std::pow(theta, 1.5)) + 1e-9;
}

void run_quadtree(const Case& c, Result& r)
{
    int N;
    bool explicit_box;
    std::vector<double> P0 = make_points(c, N, explicit_box);
    int orders = (int)c.i("orders", 10);
    Rng g((uint64_t)c.i("oseed", 5));
    bool has_coincident = false;
    {
        std::set<std::pair<double, double>> s;
        for (int i = 0; i < N; ++i)
            if (!s.insert({P0[2 * i], P0[2 * i + 1]}).second)
                has_coincident = true;
    }
    long ncells = 0, nforce = 0;
    int maxdepth = 0;
    for (int o = 0; o < orders; ++o)
    {
        std::vector<int> perm(N);
        for (int i = 0; i < N; ++i)
            perm[i] = i;
        if (o == 1)
            std::reverse(perm.begin(), perm.end());
        else if (o > 1)
            g.shuffle(perm);
        std::vector<double> P(2 * (size_t)N);
        for (int i = 0; i < N; ++i)
        {
            P[2 * i] = P0[2 * perm[i]];
            P[2 * i + 1] = P0[2 * perm[i] + 1];
        }
        tsne::QuadTree* tree = explicit_box ? new tsne::QuadTree(P.data(), N, 0.0, 0.0, 1.0, 1.0) : new tsne::QuadTree(P.data(), N);
        double box = std::max(tree->boundary.hw, tree->boundary.hh);
        for (int i = 0; i < N; ++i)
            box = std::max(box, std::max(std::fabs(P[2 * i]), std::fabs(P[2 * i + 1])));
        // isCorrect() tests exact containment in independently rounded boxes; recorded, the tolerant walk below decides
        if (!tree->isCorrect())
            r.addnum("isCorrect_false", 1);
        if (tree->cum_size != N)
        {
            r.violation("qt:lost-point", sf("root cum_size %d for N=%d (order %d)", tree->cum_size, N, o));
            delete tree;
            return;
        }
        std::vector<CellInfo> cells;
        std::vector<int> stored;
        if (!collect(tree, cells, stored, r, 0))
        {
            delete tree;
            return;
        }
        std::set<int> S(stored.begin(), stored.end());
        if (S.size() != stored.size())
        {
            r.violation("qt:stored-twice", "an index is stored in two leaves");
            delete tree;
            return;
        }
        // every index is stored or coincides with a stored one
        std::map<std::pair<double, double>, int> rep;
        for (int s : stored)
        {
            if (s < 0 || s >= N)
            {
                r.violation("qt:bad-index", sf("stored index %d", s));
                delete tree;
                return;
            }
            if (!rep.insert({{P[2 * s], P[2 * s + 1]}, s}).second)
            {
                r.violation("qt:coincident-stored-twice", "two coincident points stored separately");
                delete tree;
                return;
            }
        }
        std::map<int, std::vector<int>> absorbed;
        for (int i = 0; i < N; ++i)
        {
            auto it = rep.find({P[2 * i], P[2 * i + 1]});
            if (it == rep.end())
            {
                // not coincident: acceptable only if it cannot be told apart from a stored point at the resolution of doubles
                // inside this box (the tree keeps such points together like duplicates)
                int best = -1;
                double bd = 1e300;
                for (int s2 : stored)
                {
                    double d = std::max(std::fabs(P[2 * s2] - P[2 * i]), std::fabs(P[2 * s2 + 1] - P[2 * i + 1]));
                    if (d < bd)
                    {
                        bd = d;
                        best = s2;
                    }
                }
                if (best >= 0 && bd <= 4.5e-16 * box)
                {
                    absorbed[best].push_back(i);
                    r.addnum("merged_indistinguishable", 1);
                    continue;
                }
                r.violation("qt:lost-point", sf("point %d (%.17g,%.17g) neither stored nor coincident with a stored point (order %d)", i, P[2 * i],
                                                P[2 * i + 1], o));
                delete tree;
                return;
            }
            absorbed[it->second].push_back(i);
        }
        // getAllIndices
        {
            std::vector<int> all(N + 4, -7);
            tree->getAllIndices(all.data());
            std::set<int> A;
            size_t cnt = 0;
            for (int v : all)
                if (v != -7)
                {
                    A.insert(v);
                    ++cnt;
                }
            if (A != S || cnt != S.size())
            {
                r.violation("qt:getAllIndices", sf("getAllIndices returned %zu entries (%zu distinct), tree stores %zu", cnt, A.size(), S.size()));
                delete tree;
                return;
            }
        }
        if (!check_cells(tree, P, absorbed, box, r, ncells))
        {
            delete tree;
            return;
        }
        maxdepth = std::max(maxdepth, tree->getDepth());
        // forces (first two orders only; O(N^2))
        if (!has_coincident && o < 2 && N >= 2)
        {
            const double thetas[6] = {2, 1, 0.5, 0.1, 0.01, 0};
            // exact sums
            std::vector<double> ef(2 * (size_t)N, 0.0);
            double eZ = 0;
            for (int i = 0; i < N; ++i)
                for (int j = 0; j < N; ++j)
                    if (i != j)
                    {
                        double dx = P[2 * i] - P[2 * j], dy = P[2 * i + 1] - P[2 * j + 1];
                        double q = 1.0 / (1.0 + dx * dx + dy * dy);
                        eZ += q;
                        ef[2 * i] += q * q * dx;
                        ef[2 * i + 1] += q * q * dy;
                    }
            double nef = 0;
            for (double v : ef)
                nef += v * v;
            nef = std::sqrt(nef);
            for (int t = 0; t < 6; ++t)
            {
                std::vector<double> f(2 * (size_t)N, 0.0);
                double Z = 0;
                for (int i = 0; i < N; ++i)
                    tree->computeNonEdgeForces(i, thetas[t], f.data() + 2 * i, &Z);
                double df = 0;
                for (size_t q = 0; q < f.size(); ++q)
                    df += (f[q] - ef[q]) * (f[q] - ef[q]);
                df = std::sqrt(df);
                // relative to the force field norm, with an absolute floor relative to sum of |terms|
                double relf = df / std::max(nef, 1e-12 * std::max(1.0, eZ));
                double relZ = std::fabs(Z - eZ) / std::max(eZ, 1e-300);
                ++nforce;
                r.maxnum(sf("force_err_theta%g", thetas[t]), relf);
                r.maxnum(sf("sumQ_err_theta%g", thetas[t]), relZ);
                if (thetas[t] == 0)
                {
                    // exact: compare entrywise against sum of magnitudes to be robust to cancellation
                    double mag = 0;
                    for (int i = 0; i < N; ++i)
                        for (int j = 0; j < N; ++j)
                            if (i != j)
                            {
                                double dx = P[2 * i] - P[2 * j], dy = P[2 * i + 1] - P[2 * j + 1];
                                double q = 1.0 / (1.0 + dx * dx + dy * dy);
                                mag = std::max(mag, q * q * std::max(std::fabs(dx), std::fabs(dy)));
                            }
                    double worst = 0;
                    for (size_t q = 0; q < f.size(); ++q)
                        worst = std::max(worst, std::fabs(f[q] - ef[q]));
                    if (worst > 1e-10 * mag * N || relZ > 1e-10)
                    {
                        r.violation("qt:theta0-not-exact", sf("theta=0: force deviation %.3g (scale %.3g), sum_Q rel. deviation %.3g, N=%d", worst,
                                                            mag * N, relZ, N));
                        delete tree;
                        return;
                    }
                }
                else if (thetas[t] <= 0.1 && (relf > envelope(thetas[t]) || relZ > envelope(thetas[t])))
                {
                    r.violation("qt:error-envelope", sf("theta=%g: relative force error %.3g, sum_Q error %.3g exceed envelope %.3g (N=%d)", thetas[t],
                                                      relf, relZ, envelope(thetas[t]), N));
                    delete tree;
                    return;
                }
            }
        }
        delete tree;
    }
    r.num["cells"] = (double)ncells;
    r.num["force_evals"] = (double)nforce;
    r.num["depth"] = maxdepth;
    r.num["orders"] = orders;
    r.nontrivial = N >= 2;
    r.tags.push_back("qt:" + c.s("pts", "gauss") + (has_coincident ? ":coincident" : ""));
}

// ------------------------------------------------------------------------------------------- C17
// normalised row-major data as TSNE::run prepares it
std::vector<double> tsne_input(const Mat& X)
{
    int D = (int)X.rows(), N = (int)X.cols();
    Mat Z = X;
    Vec mu = Z.rowwise().mean();
    Z.colwise() -= mu;
    Z /= Z.maxCoeff();
    std::vector<double> v((size_t)N * D);
    for (int n = 0; n < N; ++n)
        for (int d = 0; d < D; ++d)
            v[(size_t)n * D + d] = Z(d, n);
    return v;
}

double sqd(const std::vector<double>& X, int D, int a, int b)
{
    double s = 0;
    for (int d = 0; d < D; ++d)
    {
        double t = X[(size_t)a * D + d] - X[(size_t)b * D + d];
        s += t * t;
    }
    return s;
}

// checks that row values p_m (m in cols) are Gaussian in the true squared distance with the right entropy
// The entropy of a Gaussian row decreases from log(#candidates) to log(m) as beta grows, m being the number of candidates at
// exactly the minimal distance: the target log(perplexity) is attainable iff m < perplexity < #candidates.
bool attainable_row(const std::vector<double>& X, int D, int n, const std::vector<int>& cols, double perplexity)
{
    double dmin = 1e300;
    for (int m : cols)
        dmin = std::min(dmin, sqd(X, D, n, m));
    int mult = 0;
    for (int m : cols)
        if (sqd(X, D, n, m) <= dmin * (1 + 1e-12) + 1e-300)
            ++mult;
    return perplexity > mult * (1 + 1e-6) + 1e-9 && perplexity < (double)cols.size() * (1 - 1e-6);
}

bool check_row(const std::vector<double>& X, int D, int n, const std::vector<int>& cols, const std::vector<double>& p, double perplexity,
               Result& r, const char* mode)
{
    double sum = 0, H = 0;
    for (double v : p)
        sum += v;
    if (std::fabs(sum - 1) > 1e-9)
    {
        r.violation(sf("tsne:%s:row-not-normalised", mode), sf("row %d sums to %.12g", n, sum));
        return false;
    }
    if (!attainable_row(X, D, n, cols, perplexity))
    {
        r.addnum(sf("%s_rows_with_unattainable_perplexity", mode), 1);
        return true; // normalised, nothing else can be demanded
    }
    r.addnum(sf("%s_rows_judged", mode), 1);
    for (double v : p)
        if (v > 0)
            H -= v * std::log(v);
    r.maxnum(sf("%s_entropy_dev", mode), std::fabs(H - std::log(perplexity)));
    if (std::fabs(H - std::log(perplexity)) > 1e-4)
    {
        r.violation(sf("tsne:%s:entropy", mode), sf("row %d entropy %.6f, log(perplexity) %.6f", n, H, std::log(perplexity)));
        return false;
    }
    // affine fit of log p against the true squared distance
    std::vector<double> xs, ys;
    for (size_t q = 0; q < cols.size(); ++q)
        if (p[q] > 1e-280)
        {
            xs.push_back(sqd(X, D, n, cols[q]));
            ys.push_back(std::log(p[q]));
        }
    if (xs.size() >= 3)
    {
        double mx = 0, my = 0;
        for (size_t q = 0; q < xs.size(); ++q)
        {
            mx += xs[q];
            my += ys[q];
        }
        mx /= xs.size();
        my /= xs.size();
        double sxx = 0, sxy = 0;
        for (size_t q = 0; q < xs.size(); ++q)
        {
            sxx += (xs[q] - mx) * (xs[q] - mx);
            sxy += (xs[q] - mx) * (ys[q] - my);
        }
        if (sxx > 0)
        {
            double slope = sxy / sxx, worst = 0, range = 0;
            for (size_t q = 0; q < xs.size(); ++q)
            {
                worst = std::max(worst, std::fabs(ys[q] - my - slope * (xs[q] - mx)));
                range = std::max(range, std::fabs(ys[q] - my));
            }
            r.maxnum(sf("%s_gauss_resid", mode), worst / std::max(range, 1e-12));
            if (worst > 1e-6 * std::max(range, 1.0) || !(slope < 0))
            {
                r.violation(sf("tsne:%s:not-gaussian-in-true-distance", mode),
                            sf("row %d: log p is not affine-decreasing in the true squared distance (residual %.3g of range %.3g, slope %.3g)",
                               n, worst, range, slope));
                return false;
            }
        }
    }
    return true;
}

void run_perplexity(const Case& c, Result& r)
{
    Mat Xm = make_data(c);
    int N = (int)Xm.cols(), D = (int)Xm.rows();
    double perp = c.d("perp", 5);
    std::vector<double> X = tsne_input(Xm);
    tsne::TSNE t;
    std::srand((unsigned)c.i("srand", 1));
    // exact mode
    {
        tapkee::DenseMatrix P(N, N);
        std::vector<double> Xc = X;
        t.computeGaussianPerplexity(Xc.data(), N, D, P.data(), perp);
        for (int n = 0; n < N; ++n)
        {
            std::vector<int> cols;
            std::vector<double> p;
            for (int m = 0; m < N; ++m)
                if (m != n)
                {
                    cols.push_back(m);
                    p.push_back(P.data()[(size_t)n * N + m]);
                }
            if (P.data()[(size_t)n * N + n] > 1e-200)
            {
                r.violation("tsne:exact:self-similarity", sf("P(%d,%d)=%g", n, n, P.data()[(size_t)n * N + n]));
                return;
            }
            if (!check_row(X, D, n, cols, p, perp, r, "exact"))
                return;
        }
    }
    // Barnes-Hut mode
    int K = (int)(3 * perp);
    if (K >= 1 && K <= N - 1)
    {
        int *row = NULL, *col = NULL;
        double* val = NULL;
        std::vector<double> Xc = X;
        t.computeGaussianPerplexity(Xc.data(), N, D, &row, &col, &val, perp, K);
        long wrongnn = 0;
        for (int n = 0; n < N; ++n)
        {
            if (row[n + 1] - row[n] != K)
            {
                r.violation("tsne:bh:row-length", sf("row %d has %d entries, K=%d", n, row[n + 1] - row[n], K));
                goto done;
            }
            std::vector<int> cols(col + row[n], col + row[n + 1]);
            std::vector<double> p(val + row[n], val + row[n + 1]);
            std::set<int> cs(cols.begin(), cols.end());
            if ((int)cs.size() != K || cs.count(n))
            {
                r.violation("tsne:bh:neighbour-set-malformed", sf("row %d: %zu distinct of %d, self=%d", n, cs.size(), K, (int)cs.count(n)));
                goto done;
            }
            std::vector<double> got, ref;
            for (int m : cols)
                got.push_back(sqd(X, D, n, m));
            for (int m = 0; m < N; ++m)
                if (m != n)
                    ref.push_back(sqd(X, D, n, m));
            std::sort(got.begin(), got.end());
            std::sort(ref.begin(), ref.end());
            for (int q = 0; q < K; ++q)
                if (std::fabs(got[q] - ref[q]) > 1e-12 * std::max(1e-300, ref[q]))
                {
                    ++wrongnn;
                    r.violation("tsne:bh:not-true-nearest-neighbours",
                                sf("row %d: %d-th neighbour at squared distance %.17g, true %.17g (N=%d K=%d)", n, q, got[q], ref[q], N, K));
                    goto done;
                }
            if (!check_row(X, D, n, cols, p, perp, r, "bh"))
                goto done;
        }
        {
            // symmetrizeMatrix == (P + P^T)/2 of its input
            Mat A = Mat::Zero(N, N);
            for (int n = 0; n < N; ++n)
                for (int i = row[n]; i < row[n + 1]; ++i)
                    A(n, col[i]) += val[i];
            t.symmetrizeMatrix(&row, &col, &val, N);
            Mat S = Mat::Zero(N, N);
            double total = 0;
            for (int n = 0; n < N; ++n)
            {
                std::set<int> seen;
                for (int i = row[n]; i < row[n + 1]; ++i)
                {
                    if (col[i] < 0 || col[i] >= N || !seen.insert(col[i]).second)
                    {
                        r.violation("tsne:bh:symmetrize-malformed", sf("row %d has a bad or repeated column %d", n, col[i]));
                        goto done;
                    }
                    S(n, col[i]) += val[i];
                    total += val[i];
                }
            }
            Mat E = 0.5 * (A + A.transpose());
            double dev = (S - E).cwiseAbs().maxCoeff();
            r.maxnum("symmetrize_dev", dev);
            if (dev > 1e-12 || (S - S.transpose()).cwiseAbs().maxCoeff() > 0)
            {
                r.violation("tsne:bh:symmetrize", sf("symmetrized matrix deviates from (P+P^T)/2 by %.3g", dev));
                goto done;
            }
            if (std::fabs(total - N) > 1e-9 * N)
            {
                r.violation("tsne:bh:joint-mass", sf("symmetrized mass %.12g, expected N=%d before normalisation", total, N));
                goto done;
            }
        }
    done:
        free(row);
        free(col);
        free(val);
        r.tags.push_back("bh");
    }
    r.nontrivial = true;
    r.tags.push_back("perp:" + c.s("data"));
}

double kl_cost(const Mat& P, const std::vector<double>& Y, int N, int D)
{
    double Z = 0;
    Mat Q(N, N);
    for (int n = 0; n < N; ++n)
        for (int m = 0; m < N; ++m)
        {
            if (n == m)
            {
                Q(n, m) = 0;
                continue;
            }
            Q(n, m) = 1.0 / (1.0 + sqd(Y, D, n, m));
            Z += Q(n, m);
        }
    double C = 0;
    for (int n = 0; n < N; ++n)
        for (int m = 0; m < N; ++m)
            if (n != m && P(n, m) > 0)
                C += P(n, m) * std::log(P(n, m) / (Q(n, m) / Z));
    return C;
}

std::vector<double> make_map(const Case& c, int N, int D, Rng& g)
{
    std::vector<double> Y((size_t)N * D);
    std::string kind = c.s("map", "unit");
    double s = kind == "init" ? 1e-4 : kind == "spread" ? 30.0 : 1.0;
    for (auto& v : Y)
        v = s * g.gauss();
    if (kind == "clustered")
        for (int n = 0; n < N; ++n)
            for (int d = 0; d < D; ++d)
                Y[(size_t)n * D + d] = 20.0 * ((n % 3) == d) + g.gauss();
    return Y;
}

void run_gradient(const Case& c, Result& r)
{
    Mat Xm = make_data(c);
    int N = (int)Xm.cols(), D = (int)Xm.rows();
    int nd = (int)c.i("td", 2);
    double perp = c.d("perp", 5);
    std::vector<double> X = tsne_input(Xm);
    tsne::TSNE t;
    Rng g((uint64_t)c.i("mseed", 3));
    std::srand((unsigned)c.i("srand", 1));
    // joint P exactly as run() builds it (exact mode), from an independent evaluation of the conditional Gaussians is not needed:
    // any symmetric non-negative P summing to one defines a KL cost whose gradient the routine must follow.
    if (c.has("threads"))
        omp_set_num_threads((int)c.i("threads", 8)); // large cases: whatever the library runs in parallel runs on several threads
    Mat Pj;
    if (!c.i("big", 0))
    {
        tapkee::DenseMatrix P(N, N);
        {
            std::vector<double> Xc = X;
            t.computeGaussianPerplexity(Xc.data(), N, D, P.data(), perp);
        }
        Pj.resize(N, N);
        for (int n = 0; n < N; ++n)
            for (int m = 0; m < N; ++m)
                Pj(n, m) = n == m ? 0.0 : P.data()[(size_t)n * N + m] + P.data()[(size_t)m * N + n];
        Pj /= Pj.sum();
    }
    std::vector<double> Y = make_map(c, N, nd, g);
    // exact gradient vs central finite differences (O(N^3): not for the large cases)
    if (!c.i("big", 0))
    {
        tapkee::DenseMatrix Pin = Pj; // symmetric, so row/column-major reading is the same
        std::vector<double> dC((size_t)N * nd, 0.0);
        std::vector<double> Yc = Y;
        t.computeExactGradient(Pin.data(), Yc.data(), N, nd, dC.data());
        std::vector<double> fd((size_t)N * nd);
        double scale = 0;
        for (double v : Y)
            scale = std::max(scale, std::fabs(v));
        double h = 1e-5 * std::max(scale, 1e-4);
        for (size_t i = 0; i < fd.size(); ++i)
        {
            std::vector<double> Yp = Y, Ym = Y;
            Yp[i] += h;
            Ym[i] -= h;
            fd[i] = (kl_cost(Pj, Yp, N, nd) - kl_cost(Pj, Ym, N, nd)) / (2 * h);
        }
        double gg = 0, gf = 0, ff = 0;
        for (size_t i = 0; i < fd.size(); ++i)
        {
            gg += dC[i] * dC[i];
            gf += dC[i] * fd[i];
            ff += fd[i] * fd[i];
        }
        double cst = gf / std::max(gg, 1e-300);
        double res = 0;
        for (size_t i = 0; i < fd.size(); ++i)
            res += (cst * dC[i] - fd[i]) * (cst * dC[i] - fd[i]);
        double rel = std::sqrt(res / std::max(ff, 1e-300));
        r.maxnum("exact_grad_rel_err", rel);
        r.num["exact_grad_constant"] = cst;
        // finite differences lose accuracy when the gradient is tiny compared with the cost
        double fdnoise = 1e-9 * std::fabs(kl_cost(Pj, Y, N, nd)) / h / std::max(std::sqrt(ff), 1e-300);
        if (!(cst > 0) || rel > 1e-5 + 10 * fdnoise)
            r.violation("tsne:exact-gradient", sf("exact gradient is not a positive multiple of dKL/dY: constant %.6g, relative residual %.3g (N=%d dims=%d map=%s)",
                                                  cst, rel, N, nd, c.s("map", "unit").c_str()));
    }
    // Barnes-Hut gradient vs exact sums with the same sparse P (2-D maps only: the quadtree is planar)
    if (nd == 2)
    {
        int K = std::min(N - 1, std::max(1, (int)(3 * perp)));
        int *row = NULL, *col = NULL;
        double* val = NULL;
        std::vector<double> Xc = X;
        t.computeGaussianPerplexity(Xc.data(), N, D, &row, &col, &val, perp, K);
        t.symmetrizeMatrix(&row, &col, &val, N);
        double sum = 0;
        for (int i = 0; i < row[N]; ++i)
            sum += val[i];
        for (int i = 0; i < row[N]; ++i)
            val[i] /= sum;
        // reference
        std::vector<double> ref((size_t)N * 2, 0.0);
        double Z = 0;
        for (int n = 0; n < N; ++n)
            for (int m = 0; m < N; ++m)
                if (n != m)
                    Z += 1.0 / (1.0 + sqd(Y, 2, n, m));
        for (int n = 0; n < N; ++n)
        {
            for (int i = row[n]; i < row[n + 1]; ++i)
            {
                int m = col[i];
                double q = 1.0 / (1.0 + sqd(Y, 2, n, m));
                for (int d = 0; d < 2; ++d)
                    ref[2 * n + d] += val[i] * q * (Y[2 * n + d] - Y[2 * m + d]);
            }
            for (int m = 0; m < N; ++m)
                if (m != n)
                {
                    double q = 1.0 / (1.0 + sqd(Y, 2, n, m));
                    for (int d = 0; d < 2; ++d)
                        ref[2 * n + d] -= q * q * (Y[2 * n + d] - Y[2 * m + d]) / Z;
                }
        }
        double nref = 0;
        for (double v : ref)
            nref += v * v;
        nref = std::sqrt(nref);
        const double thetas[5] = {1.0, 0.5, 0.1, 0.01, 1e-6};
        for (int ti = 0; ti < 5; ++ti)
        {
            std::vector<double> dC((size_t)N * 2, 0.0);
            std::vector<double> Yc = Y;
            t.computeGradient(NULL, row, col, val, Yc.data(), N, 2, dC.data(), thetas[ti]);
            double e = 0;
            for (size_t i = 0; i < dC.size(); ++i)
                e += (dC[i] - ref[i]) * (dC[i] - ref[i]);
            double rel = std::sqrt(e) / std::max(nref, 1e-300);
            r.maxnum(sf("bh_grad_err_theta%g", thetas[ti]), rel);
            double bound = thetas[ti] <= 1e-6 ? 1e-9 : envelope(thetas[ti]) * 4; // attractive and repulsive parts partly cancel
            if (thetas[ti] <= 0.1 && rel > bound)
            {
                r.violation("tsne:bh-gradient", sf("Barnes-Hut gradient at theta=%g deviates from the exact sums by %.3g (bound %.3g; N=%d map=%s)",
                                                   thetas[ti], rel, bound, N, c.s("map", "unit").c_str()));
                break;
            }
        }
        // the gradient is a function of (P, map, theta): evaluating it again on the same map gives the same vector
        {
            std::vector<double> a((size_t)N * 2, 0.0), b((size_t)N * 2, 0.0);
            std::vector<double> Ya = Y, Yb = Y;
            t.computeGradient(NULL, row, col, val, Ya.data(), N, 2, a.data(), 0.5);
            t.computeGradient(NULL, row, col, val, Yb.data(), N, 2, b.data(), 0.5);
            double e = 0, na = 0;
            for (size_t i = 0; i < a.size(); ++i)
            {
                e = std::max(e, std::fabs(a[i] - b[i]));
                na = std::max(na, std::fabs(a[i]));
            }
            r.maxnum("bh_grad_repeat_dev", e / std::max(na, 1e-300));
            if (e > 1e-10 * na)
                r.violation("tsne:bh-gradient-not-reproducible",
                            sf("two evaluations at theta=0.5 on the same map differ by %.3g of the largest entry (N=%d, %d threads)", e / std::max(na, 1e-300), N,
                               omp_get_max_threads()));
        }
        free(row);
        free(col);
        free(val);
    }
    r.nontrivial = true;
    r.tags.push_back("grad:" + c.s("map", "unit") + sf(":dims%d", nd) + (c.i("big", 0) ? sf(":N%d", N) : std::string()));
}

// hook H3: named intermediate quantities reported by the library under the guard
std::map<std::string, double>& observed()
{
    static std::map<std::string, double> m;
    return m;
}
void observe_handler(const char* name, double value)
{
    observed()[name] = value;
}

void run_e2e(const Case& c, Result& r)
{
    tapkee::verif::observe_handler() = &observe_handler;
    observed().clear();
    // three Gaussian clusters >= 10 sigma apart
    int N = (int)c.i("N", 60), D = (int)c.i("D", 4);
    Rng g((uint64_t)c.i("dseed", 1) * 13 + 1);
    Mat X(D, N);
    std::vector<int> label(N);
    for (int j = 0; j < N; ++j)
    {
        label[j] = j % 3;
        for (int i = 0; i < D; ++i)
            X(i, j) = (i == label[j] % D ? c.d("gap", 15.0) * (1 + label[j] / D) : 0.0) + g.gauss();
    }
    MatrixCallbacks cb(X);
    std::vector<int> idx = iota_indices(N);
    std::srand((unsigned)c.i("srand", 1));
    Outcome o = guarded_embed(idx, cb, params_from_case(c));
    if (o.what != "ok")
    {
        r.violation("tsne:e2e-throws", o.what + ": " + o.message);
        return;
    }
    // the joint distribution the optimisation starts from must sum to one (observed through hook H3)
    if (!observed().count("tsne:joint-mass"))
        r.violation("tsne:e2e-joint-mass-not-observed", "the run did not report its joint similarity mass");
    else
    {
        double mass = observed()["tsne:joint-mass"];
        r.maxnum("e2e_joint_mass_dev", std::fabs(mass - 1.0));
        if (!(std::fabs(mass - 1.0) <= 1e-9))
            r.violation("tsne:e2e-joint-distribution-does-not-sum-to-one", sf("sum of the symmetrised similarities = %.12g (theta=%g)", mass, c.d("theta", 0.5)));
    }
    const Mat& Y = o.out.embedding;
    if (Y.rows() != N || Y.cols() != c.i("td", 2) || !Y.allFinite())
    {
        r.violation("tsne:e2e-shape-or-nonfinite", sf("%ldx%ld finite=%d", (long)Y.rows(), (long)Y.cols(), (int)Y.allFinite()));
        return;
    }
    double scale = std::max(1e-300, Y.cwiseAbs().maxCoeff());
    double mean = Y.colwise().mean().cwiseAbs().maxCoeff();
    r.maxnum("e2e_mean_over_scale", mean / scale);
    if (mean > 1e-9 * scale)
        r.violation("tsne:e2e-not-centred", sf("|column mean| / max|Y| = %.3g", mean / scale));
    int bad = 0;
    for (int i = 0; i < N; ++i)
    {
        int best = -1;
        double bd = 1e300;
        for (int j = 0; j < N; ++j)
            if (j != i)
            {
                double d = (Y.row(i) - Y.row(j)).squaredNorm();
                if (d < bd)
                {
                    bd = d;
                    best = j;
                }
            }
        if (label[best] != label[i])
            ++bad;
    }
    r.num["e2e_wrong_label_nn"] = bad;
    // single stranded points are ordinary optimisation noise of t-SNE (measured: 1 of 60 points in ~10% of correct runs);
    // "clusters stay separated" is decided on at least 90% of the points having a same-cluster nearest neighbour
    if (bad > std::max(2, N / 10))
        r.violation("tsne:e2e-clusters-mixed", sf("%d of %d points have a nearest embedded neighbour from another cluster (theta=%g perp=%g)", bad, N,
                                                c.d("theta", 0.5), c.d("perp", 30)));
    r.nontrivial = true;
    r.tags.push_back(sf("e2e:theta%g", c.d("theta", 0.5)));
}

void run_case(const Case& c, Result& r)
{
    std::string m = c.s("mode");
    if (m == "qt")
        run_quadtree(c, r);
    else if (m == "perp")
        run_perplexity(c, r);
    else if (m == "grad")
        run_gradient(c, r);
    else
        run_e2e(c, r);
}
} // namespace

int main(int argc, char** argv)
{
    return driver_main(argc, argv, run_case, vh::install_tick);
}
