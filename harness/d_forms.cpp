// C13: all call forms / attachment orders give the same embedding; only declared callbacks are invoked.
// C14: invalid requests raise the documented exception before any kernel/distance evaluation; defaults.
#include "common/callbacks.hpp"
#include "common/forms.hpp"
#include "common/refs.hpp"
#include <omp.h>

using namespace vh;

namespace
{
void seed(const Case& c)
{
    std::srand((unsigned)c.i("srand", 1));
    tapkee::verif::shuffle_seed((unsigned)c.i("shuffle", 1));
}

int needs_mask(const std::string& m)
{
    tapkee::DimensionReductionMethod dm = method_by_name(m);
    return (dm.needs_kernel ? 1 : 0) | (dm.needs_distance ? 2 : 0) | (dm.needs_features ? 4 : 0);
}

double emb_dev(const Mat& A, const Mat& B)
{
    if (A.rows() != B.rows() || A.cols() != B.cols())
        return 1e300;
    double s = std::max(std::max(A.cwiseAbs().maxCoeff(), B.cwiseAbs().maxCoeff()), 1e-300);
    Mat Z = align_signs(B, A);
    return (A - Z).cwiseAbs().maxCoeff() / s;
}

// ------------------------------------------------------------------------------------------------ C13
void run_forms(const Case& c, Result& r)
{
    Mat X = make_data(c);
    std::string m = c.s("method");
    tapkee::ParametersSet ps = params_from_case(c);
    Counters cnt;
    int need = needs_mask(m);
    // reference form: indices + counting callbacks, all three attached in the canonical order
    seed(c);
    Outcome ref = form_counting(7, 0, X, ps, cnt, true);
    long ck = cnt.k, cd = cnt.d, cf = cnt.f;
    if (ref.what != "ok")
    {
        r.inconclusive.push_back("reference form threw " + ref.what + ": " + ref.message);
        return;
    }
    const Mat& Y = ref.out.embedding;
    if (!Y.allFinite())
    {
        r.inconclusive.push_back("reference embedding not finite");
        return;
    }
    // undeclared callbacks must not be invoked
    if (!(need & 1) && ck > 0)
        r.violation(m + ":undeclared-kernel-invoked", sf("%ld kernel evaluations by a method that does not declare a kernel", ck));
    if (!(need & 2) && cd > 0)
        r.violation(m + ":undeclared-distance-invoked", sf("%ld distance evaluations by a method that does not declare a distance", cd));
    if (!(need & 4) && cf > 0)
        r.violation(m + ":undeclared-features-invoked", sf("%ld feature evaluations by a method that does not declare features", cf));
    r.num["kernel_calls"] = (double)ck;
    r.num["distance_calls"] = (double)cd;
    r.num["feature_calls"] = (double)cf;
    double tol = 1e-9;
    auto compare = [&](const Outcome& o, const std::string& form) {
        r.addnum("forms_compared", 1);
        if (o.what != "ok")
        {
            r.violation(m + ":" + form + ":throws", form + " threw " + o.what + ": " + o.message + " while the reference form succeeded");
            return;
        }
        double dev = emb_dev(Y, o.out.embedding);
        r.maxnum("form_dev", dev);
        if (!(dev <= tol))
            r.violation(m + ":" + form + ":differs", sf("embedding differs from the reference form by %.3g", dev));
        bool p1 = (bool)ref.out.projection.implementation, p2 = (bool)o.out.projection.implementation;
        if (p1 != p2)
            r.violation(m + ":" + form + ":projection-presence-differs", "one form returns a projection function, the other does not");
    };
    // all six attachment orders, embedRange and embedUsing(container)
    for (int order = 0; order < 6; ++order)
        for (int range = 0; range < 2; ++range)
        {
            if (order == 0 && range == 1)
                continue;
            cnt.reset();
            seed(c);
            Outcome o = form_counting(7, order, X, ps, cnt, range == 1);
            compare(o, sf("order%d-%s", order, range ? "embedRange" : "embedUsing"));
            if (cnt.k != ck || cnt.d != cd || cnt.f != cf)
                r.violation(m + ":callback-counts-depend-on-order",
                            sf("order %d: %ld/%ld/%ld kernel/distance/feature calls vs %ld/%ld/%ld", order, (long)cnt.k, (long)cnt.d, (long)cnt.f, ck, cd, cf));
        }
    // feature matrix directly
    seed(c);
    compare(form_matrix(X, ps), "matrix");
    // precomputed kernel / distance matrices
    seed(c);
    compare(form_precomputed(X, ps), "precomputed");
    // sequence of objects
    seed(c);
    compare(form_objects(X, ps, true), "objects-embedRange");
    seed(c);
    compare(form_objects(X, ps, false), "objects-embedUsing");
    // a sequence of labels that is not 0..N-1 (a permutation): hand-written callbacks vs the library's own Eigen callbacks vs
    // precomputed matrices over the SAME sequence must agree (positions and the values the iterators point at differ here)
    {
        std::vector<int> seq = iota_indices((int)X.cols());
        Rng g((uint64_t)c.i("dseed", 1) * 131 + 5);
        g.shuffle(seq);
        cnt.reset();
        seed(c);
        Outcome rs = form_counting_sequence(X, ps, cnt, seq);
        if (rs.what != "ok")
            r.violation(m + ":permuted-sequence:throws", "hand-written callbacks over a permuted index sequence threw " + rs.what + ": " + rs.message);
        else if (!rs.out.embedding.allFinite())
            // (numerically disconnected data, e.g. Diffusion Map with a width far below the squared distances: psi_0 has exact
            // zeros whose position depends on rounding; nothing to compare against)
            r.inconclusive.push_back("embedding over the permuted sequence not finite");
        else
        {
            auto compare_seq = [&](const Outcome& o, const std::string& form) {
                r.addnum("forms_compared", 1);
                if (o.what != "ok")
                {
                    r.violation(m + ":" + form + ":throws", form + " threw " + o.what + ": " + o.message);
                    return;
                }
                double dev = emb_dev(rs.out.embedding, o.out.embedding);
                r.maxnum("form_dev", dev);
                if (!(dev <= tol))
                    r.violation(m + ":" + form + ":differs", sf("embedding differs from hand-written callbacks over the same permuted sequence by %.3g", dev));
            };
            seed(c);
            compare_seq(form_eigen_sequence(X, ps, seq), "eigen-callbacks-permuted-sequence");
            seed(c);
            compare_seq(form_precomputed_sequence(X, ps, seq), "precomputed-permuted-sequence");
        }
    }
    // exactly the declared callbacks (dummies elsewhere) must suffice, in both attachment orders
    if (need != 7)
    {
        for (int order = 0; order < 2; ++order)
        {
            cnt.reset();
            seed(c);
            Outcome o = form_counting(need, order, X, ps, cnt, true);
            compare(o, sf("declared-only-mask%d-order%d", need, order));
        }
    }
    r.nontrivial = true;
    r.tags.push_back(m);
}

// ------------------------------------------------------------------------------------------------ C14
const char* const NB_METHODS[] = {"klle", "npe", "kltsa", "lltsa", "hlle", "le", "lpp", "isomap", "lisomap", "ms"};

bool cancel_true()
{
    return true;
}
bool cancel_false()
{
    return false;
}

struct Expect
{
    std::string what; // exception name, "accept"
};

void judge(const Outcome& o, const Expect& e, const Counters& cnt, Result& r, const std::string& cell)
{
    r.addnum("requests", 1);
    r.tags.push_back("cell:" + cell);
    if (e.what == "accept")
    {
        // values on the valid side must pass validation: no parameter/type/duplicate/missing error
        if (o.what == "wrong_parameter_error" || o.what == "wrong_parameter_type_error" || o.what == "multiple_parameter_error" ||
            o.what == "missed_parameter_error" || o.what == "no_data_error" || o.what == "cancelled_exception" || !o.documented)
            r.violation(cell + ":valid-request-rejected", "a request on the valid side was answered with " + o.what + ": " + o.message);
        return;
    }
    if (o.what != e.what)
    {
        r.violation(cell + ":wrong-outcome", "expected " + e.what + ", got " + o.what + (o.message.empty() ? "" : (": " + o.message)));
        return;
    }
    if (cnt.k > 0 || cnt.d > 0)
        r.violation(cell + ":computed-before-raising", sf("%ld kernel and %ld distance evaluations before %s was raised", (long)cnt.k, (long)cnt.d, e.what.c_str()));
}

// The request is assembled the way callers write it, (a, b, c, ...): Parameter::operator, makes the set out of the first two
// keywords and ParametersSet::operator, appends the others; one time in four through ParametersSet::add instead.
// keep_front > 0 leaves the first keep_front keywords where they are (e.g. a duplicated pair at the very front).
tapkee::ParametersSet shuffled(std::vector<tapkee::Parameter> ps, Rng& g, int keep_front = 0)
{
    if (keep_front > 0)
    {
        std::vector<tapkee::Parameter> tail(ps.begin() + keep_front, ps.end());
        g.shuffle(tail);
        std::copy(tail.begin(), tail.end(), ps.begin() + keep_front);
    }
    else
        g.shuffle(ps);
    tapkee::ParametersSet set;
    if (g.below(4) == 0 || ps.empty())
    {
        for (auto& p : ps)
            set.add(p);
        return set;
    }
    if (ps.size() == 1)
        return static_cast<tapkee::ParametersSet>(ps[0]);
    set = ps[0].operator,(ps[1]);
    for (size_t i = 2; i < ps.size(); ++i)
        set.operator,(ps[i]);
    return set;
}

std::vector<tapkee::Parameter> base_params(const std::string& m, int N, Rng& g)
{
    using namespace tapkee;
    std::vector<Parameter> v;
    v.push_back(method = method_by_name(m));
    v.push_back(target_dimension = (IndexType)1);
    v.push_back(num_neighbors = (IndexType)std::min(N - 1, 6));
    v.push_back(max_iteration = (IndexType)3);
    v.push_back(sne_perplexity = std::min(3.0, (N - 1) / 3.0 * 0.9));
    if (m == "tsne")
        v.back() = (sne_perplexity = std::min(3.0, (N - 1) / 3.0 * 0.9));
    if (m == "tsne")
    {
        v[1] = (target_dimension = (IndexType)2);
    }
    (void)g;
    return v;
}

void replace_or_add(std::vector<tapkee::Parameter>& v, const tapkee::Parameter& p)
{
    for (auto& q : v)
        if (q.name() == p.name())
        {
            q = p;
            return;
        }
    v.push_back(p);
}

void run_table(const Case& c, Result& r)
{
    using namespace tapkee;
    Mat X = make_data(c);
    int N = (int)X.cols();
    std::string m = c.s("method");
    Rng g((uint64_t)c.i("tseed", 1));
    Counters cnt;
    int need = needs_mask(m);
    bool uses_nb = false;
    for (const char* q : NB_METHODS)
        if (m == q)
            uses_nb = true;
    int keep_front = 0;
    auto request = [&](std::vector<Parameter> v, const Expect& e, const std::string& cell, int mask = 7, int n_override = -1) {
        cnt.reset();
        seed(c);
        Outcome o = form_counting(mask, g.below(6), X, shuffled(v, g, keep_front), cnt, g.uni() < 0.5, n_override);
        judge(o, e, cnt, r, m + ":" + cell);
    };
    struct Row
    {
        std::string cell;
        Parameter p;
        std::string expect;
    };
    std::vector<Row> rows;
    auto add = [&](const std::string& cell, const Parameter& p, const std::string& expect) { rows.push_back({cell, p, expect}); };
    const std::string WPE = "wrong_parameter_error";
    // target_dimension in [1, N)
    add("td=0", target_dimension = (IndexType)0, WPE);
    add("td=-1", target_dimension = (IndexType)-1, WPE);
    add("td=N", target_dimension = (IndexType)N, WPE);
    add("td=N+1", target_dimension = (IndexType)(N + 1), WPE);
    if (m != "tsne")
        add("td=1", target_dimension = (IndexType)1, "accept");
    // num_neighbors in [3, N) for the methods that search neighbours
    if (uses_nb)
    {
        add("k=2", num_neighbors = (IndexType)2, WPE);
        add("k=0", num_neighbors = (IndexType)0, WPE);
        add("k=N", num_neighbors = (IndexType)N, WPE);
        add("k=N+5", num_neighbors = (IndexType)(N + 5), WPE);
        add("k=3", num_neighbors = (IndexType)3, "accept");
        add("k=N-1", num_neighbors = (IndexType)(N - 1), "accept");
    }
    if (m == "le" || m == "lpp" || m == "dm")
    {
        add("width=0", gaussian_kernel_width = 0.0, WPE);
        add("width=-1", gaussian_kernel_width = -1.0, WPE);
        add("width=1e-3", gaussian_kernel_width = 1e-3, "accept");
        add("width=5", gaussian_kernel_width = 5.0, "accept");
    }
    if (m == "dm")
    {
        add("timesteps=0", diffusion_map_timesteps = (IndexType)0, WPE);
        add("timesteps=-2", diffusion_map_timesteps = (IndexType)-2, WPE);
        add("timesteps=1", diffusion_map_timesteps = (IndexType)1, "accept");
    }
    if (m == "spe")
    {
        add("spetol=0", spe_tolerance = 0.0, WPE);
        add("spetol=-1e-3", spe_tolerance = -1e-3, WPE);
        add("spetol=1e-12", spe_tolerance = 1e-12, "accept");
        add("speupd=0", spe_num_updates = (IndexType)0, WPE);
        add("speupd=-1", spe_num_updates = (IndexType)-1, WPE);
        add("speupd=1", spe_num_updates = (IndexType)1, "accept");
    }
    if (m == "lmds" || m == "lisomap")
    {
        add("ratio=2.9/N", landmark_ratio = 2.9 / N, WPE);
        add("ratio=0", landmark_ratio = 0.0, WPE);
        add("ratio=1.0001", landmark_ratio = 1.0001, WPE);
        add("ratio=3/N", landmark_ratio = 3.0 / N, "accept");
        add("ratio=1", landmark_ratio = 1.0, "accept");
        add("ratio=0.5", landmark_ratio = 0.5, "accept");
    }
    if (m == "tsne")
    {
        add("perp=-0.1", sne_perplexity = -0.1, WPE);
        add("perp=max+", sne_perplexity = (N - 1) / 3.0 + 0.01, WPE);
        add("perp=max", sne_perplexity = (N - 1) / 3.0, "accept");
        add("perp=max-0.2", sne_perplexity = (N - 1) / 3.0 - 0.2, "accept");
        add("perp=max*0.98", sne_perplexity = (N - 1) / 3.0 * 0.98, "accept");
        add("perp=2", sne_perplexity = 2.0, "accept");
        add("theta=-0.1", sne_theta = -0.1, WPE);
        add("theta=0", sne_theta = 0.0, "accept");
        add("theta=0.5", sne_theta = 0.5, "accept");
    }
    if (m == "fa")
    {
        add("faeps=-1e-9", fa_epsilon = -1e-9, WPE);
        add("faeps=0", fa_epsilon = 0.0, "accept");
        add("faeps=1e-3", fa_epsilon = 1e-3, "accept");
    }
    if (m == "ms")
    {
        add("squish=-0.1", squishing_rate = -0.1, WPE);
        add("squish=1", squishing_rate = 1.0, WPE);
        add("squish=1.5", squishing_rate = 1.5, WPE);
        add("squish=0", squishing_rate = 0.0, "accept");
        add("squish=0.99", squishing_rate = 0.99, "accept");
    }
    for (auto& row : rows)
    {
        std::vector<Parameter> v = base_params(m, N, g);
        replace_or_add(v, row.p);
        request(v, {row.expect}, row.cell);
    }
    // duplicates: any keyword given twice (same or different value), at a random position
    {
        std::vector<Parameter> v = base_params(m, N, g);
        int which = g.below((int)v.size());
        v.push_back(v[which]);
        request(v, {"multiple_parameter_error"}, "duplicate-" + std::string(v[which].name()).substr(0, 12));
        std::vector<Parameter> v2 = base_params(m, N, g);
        v2.push_back(gaussian_kernel_width = 2.0);
        v2.push_back(gaussian_kernel_width = 3.0);
        v2.push_back(gaussian_kernel_width = 3.0);
        request(v2, {"multiple_parameter_error"}, "triplicate-width");
        // the repeated keyword in the first two, the last two and the first and last positions of the comma expression
        for (int place = 0; place < 3; ++place)
        {
            std::vector<Parameter> b = base_params(m, N, g);
            int w = g.below((int)b.size());
            Parameter twin = b[w];
            std::vector<Parameter> v3;
            if (place == 0)
            {
                v3.push_back(twin);
                v3.push_back(twin);
            }
            if (place == 2)
                v3.push_back(twin);
            std::vector<Parameter> others;
            for (int i = 0; i < (int)b.size(); ++i)
                if (i != w)
                    others.push_back(b[i]);
            g.shuffle(others);
            v3.insert(v3.end(), others.begin(), others.end());
            if (place >= 1)
                v3.push_back(twin);
            if (place == 1)
                v3.push_back(twin);
            keep_front = (int)v3.size(); // order as built
            request(v3, {"multiple_parameter_error"}, std::string(place == 0 ? "duplicate-first-two" : place == 1 ? "duplicate-last-two" : "duplicate-first-and-last"));
            keep_front = 0;
        }
    }
    // missing method
    {
        std::vector<Parameter> v = base_params(m, N, g);
        v.erase(v.begin());
        request(v, {"missed_parameter_error"}, "no-method");
    }
    // wrong value types
    {
        std::vector<Parameter> v = base_params(m, N, g);
        replace_or_add(v, Parameter::create("target dimension", 2.5));
        request(v, {"wrong_parameter_type_error"}, "td-as-double");
        if (uses_nb)
        {
            std::vector<Parameter> v3 = base_params(m, N, g);
            replace_or_add(v3, Parameter::create("number of neighbors", 7.0));
            request(v3, {"wrong_parameter_type_error"}, "k-as-double");
        }
        std::vector<Parameter> v4 = base_params(m, N, g);
        replace_or_add(v4, Parameter::create("dimension reduction method", std::string("Isomap")));
        request(v4, {"wrong_parameter_type_error"}, "method-as-string");
    }
    // empty range
    request(base_params(m, N, g), {"no_data_error"}, "empty-range", 7, 0);
    // cancellation
    {
        std::vector<Parameter> v = base_params(m, N, g);
        v.push_back(cancel_function = &cancel_true);
        request(v, {"cancelled_exception"}, "cancel-true");
        std::vector<Parameter> v2 = base_params(m, N, g);
        v2.push_back(cancel_function = &cancel_false);
        request(v2, {"accept"}, "cancel-false");
    }
    // every subset of supplied callbacks
    for (int mask = 1; mask <= 7; ++mask)
    {
        bool missing = (need & ~mask) != 0;
        request(base_params(m, N, g), {missing ? "unsupported_method_error" : "accept"}, sf("callbacks-mask%d", mask), mask);
    }
    r.nontrivial = true;
}

// explicitly set values echoed unchanged, unset ones show the documented defaults
void run_defaults(const Case& c, Result& r)
{
    using namespace tapkee;
    Mat X = make_data(c);
    int N = (int)X.cols();
    Rng g((uint64_t)c.i("tseed", 1));
    CaptureLogger& lg = capture_logger();
    struct Doc
    {
        const char* name;
        const char* def; // as echoed
    };
    static const Doc docs[] = {{"number of neighbors", "5"},
                               {"target dimension", "2"},
                               {"diffusion map timesteps", "3"},
                               {"the width of the gaussian kernel", "1"},
                               {"maximal iteration", "100"},
                               {"SPE global strategy", "1"},
                               {"SPE number of updates", "100"},
                               {"SPE tolerance", "1e-09"},
                               {"ratio of landmark points", "0.5"},
                               {"diagonal shift of nullspace", "1e-09"},
                               {"KLLE regularizer", "0.001"},
                               {"check connectivity", "1"},
                               {"epsilon of FA", "1e-09"},
                               {"SNE perplexity", "30"},
                               {"SNE theta", "0.5"},
                               {"squishing rate", "0.99"},
                               {"nearest neighbors method", "Cover tree"},
                               {"eigendecomposition method", "Dense"},
                               {"computation strategy (cpu, cpu+gpu)", "CPU"}};
    // random subset of explicitly set keywords with non-default values
    std::map<std::string, std::string> expect;
    for (auto& d : docs)
        expect[d.name] = d.def;
    std::vector<Parameter> v;
    v.push_back(method = PassThru);
    expect["dimension reduction method"] = "Pass-through";
    auto maybe = [&](const Parameter& p, const std::string& echoed) {
        if (g.uni() < 0.5)
        {
            v.push_back(p);
            expect[p.name()] = echoed;
        }
    };
    maybe(num_neighbors = (IndexType)7, "7");
    maybe(target_dimension = (IndexType)1, "1");
    maybe(diffusion_map_timesteps = (IndexType)9, "9");
    maybe(gaussian_kernel_width = 2.5, "2.5");
    maybe(max_iteration = (IndexType)17, "17");
    maybe(spe_global_strategy = false, "0");
    maybe(spe_num_updates = (IndexType)4, "4");
    maybe(spe_tolerance = 0.125, "0.125");
    maybe(landmark_ratio = 0.75, "0.75");
    maybe(nullspace_shift = 0.25, "0.25");
    maybe(klle_shift = 0.0625, "0.0625");
    maybe(check_connectivity = false, "0");
    maybe(fa_epsilon = 0.5, "0.5");
    maybe(sne_perplexity = 2.0, "2");
    maybe(sne_theta = 0.75, "0.75");
    maybe(squishing_rate = 0.5, "0.5");
    maybe(neighbors_method = Brute, "Brute-force");
    maybe(eigen_method = Randomized, "Randomized");
    lg.clear();
    Counters cnt;
    Outcome o = form_counting(7, g.below(6), X, shuffled(v, g), cnt, true);
    if (o.what != "ok")
    {
        r.violation("defaults:passthru-throws", o.what + ": " + o.message);
        return;
    }
    std::map<std::string, std::string> seen;
    for (auto& msg : lg.debug)
    {
        if (msg.rfind("Parameter ", 0) != 0)
            continue;
        size_t eq = msg.find(" = [");
        if (eq == std::string::npos || msg.back() != ']')
            continue;
        seen[msg.substr(10, eq - 10)] = msg.substr(eq + 4, msg.size() - eq - 5);
    }
    for (auto& kv : expect)
    {
        r.addnum("keywords_checked", 1);
        auto it = seen.find(kv.first);
        if (it == seen.end())
            r.violation("defaults:keyword-not-echoed", "'" + kv.first + "' missing from the parameter echo");
        else if (it->second != kv.second)
            r.violation("defaults:value", "'" + kv.first + "' echoed as [" + it->second + "], expected [" + kv.second + "] (" +
                                              (v.size() > 1 && std::any_of(v.begin(), v.end(), [&](const Parameter& p) { return p.name() == kv.first; })
                                                   ? "explicitly set"
                                                   : "documented default") +
                                              ")");
    }
    (void)N;
    r.nontrivial = true;
    r.tags.push_back("defaults");
}

void run_case(const Case& c, Result& r)
{
    std::string mode = c.s("mode");
    if (mode == "forms")
        run_forms(c, r);
    else if (mode == "table")
        run_table(c, r);
    else
        run_defaults(c, r);
}
} // namespace

int main(int argc, char** argv)
{
    omp_set_num_threads(1);
    return driver_main(argc, argv, run_case, vh::install_tick);
}
