// C02: the three neighbour searches vs an O(N^2) scan through the same callback object.
// C03: check_connectivity decisions vs reference reachability; order independence; end-to-end Isomap.
#include "common/callbacks.hpp"
#include <tapkee/neighbors/neighbors.hpp>
#include <tapkee/routines/isomap.hpp>

using namespace vh;
using namespace tapkee;
using namespace tapkee::tapkee_internal;

namespace
{
typedef std::vector<int>::iterator It;

struct CbK
{
    MatrixCallbacks* c;
    double kernel(int a, int b) const
    {
        return c->kernel(a, b);
    }
};
struct CbD
{
    MatrixCallbacks* c;
    double distance(int a, int b) const
    {
        return c->distance(a, b);
    }
};

// graph shortest-path metric with many ties: random connected graph, small integer weights
Mat graph_metric(int N, Rng& g)
{
    Mat W = Mat::Constant(N, N, 1e9);
    for (int i = 0; i < N; ++i)
        W(i, i) = 0;
    for (int i = 1; i < N; ++i)
    {
        int j = g.below(i);
        double w = g.range(1, 3);
        W(i, j) = W(j, i) = w;
    }
    for (int e = 0; e < N; ++e)
    {
        int i = g.below(N), j = g.below(N);
        if (i != j)
        {
            double w = g.range(1, 3);
            W(i, j) = W(j, i) = std::min(W(i, j), w);
        }
    }
    for (int k = 0; k < N; ++k)
        for (int i = 0; i < N; ++i)
            for (int j = 0; j < N; ++j)
                if (W(i, k) + W(k, j) < W(i, j))
                    W(i, j) = W(i, k) + W(k, j);
    return W;
}

const char* NM[3] = {"brute", "vptree", "covertree"};

template <class Dist>
Neighbors call_find(int m, std::vector<int>& idx, Dist d, int k, bool conn)
{
    NeighborsMethod nm = m == 0 ? Brute : m == 1 ? VpTree : CoverTree;
    return find_neighbors(nm, idx.begin(), idx.end(), d, k, conn);
}

// ---- C02 -----------------------------------------------------------------------------
void run_knn(const Case& c, Result& r)
{
    Mat X = make_data(c);
    int N = (int)X.cols();
    int k = (int)c.i("k", 3);
    MatrixCallbacks cb(X);
    configure_callbacks(cb, c);
    Mat G;
    if (c.s("dist") == "graph")
    {
        Rng g((uint64_t)c.i("dseed", 1) + 99);
        G = graph_metric(N, g);
        cb.dk = D_MATRIX;
        cb.Dm = &G;
    }
    bool usek = c.s("via", "dist") == "kernel";
    std::srand((unsigned)c.i("srand", 1)); // vp-tree pivots come from std::rand
    std::vector<int> idx = iota_indices(N);

    // reference distances through the very same distance functor the searches use
    CbK ck{&cb};
    CbD cd{&cb};
    KernelDistance<It, CbK> kd(ck);
    PlainDistance<It, CbD> pd(cd);
    Mat R(N, N);
    double kmax = 0;
    for (int i = 0; i < N; ++i)
        for (int j = 0; j < N; ++j)
        {
            R(i, j) = usek ? kd.distance(idx.begin() + i, idx.begin() + j) : pd.distance(idx.begin() + i, idx.begin() + j);
        }
    if (usek)
        for (int i = 0; i < N; ++i)
            kmax = std::max(kmax, std::fabs(cb.kval(i, i)));
    bool any_nan = !R.allFinite();
    r.num["nan_distances"] = any_nan ? 1 : 0;

    long ties = 0, dupq = 0, queries = 0;
    std::vector<std::vector<double>> ref(N);
    for (int i = 0; i < N; ++i)
    {
        std::vector<double> d;
        int zero = 0;
        for (int j = 0; j < N; ++j)
            if (j != i)
            {
                d.push_back(R(i, j));
                if (R(i, j) == 0)
                    ++zero;
            }
        std::sort(d.begin(), d.end());
        if (k < (int)d.size() && d[k - 1] == d[k])
            ++ties;
        if (zero >= k)
            ++dupq;
        d.resize(k);
        ref[i] = d;
    }
    std::string only = c.s("only", "");
    for (int m = 0; m < 3; ++m)
    {
        if (!only.empty() && only != NM[m])
            continue;
        Neighbors nb = usek ? call_find(m, idx, kd, k, false) : call_find(m, idx, pd, k, false);
        if ((int)nb.size() != N)
        {
            r.violation(sf("knn:%s:list-count", NM[m]), sf("%zu lists for N=%d", nb.size(), N));
            continue;
        }
        for (int i = 0; i < N; ++i)
        {
            ++queries;
            const LocalNeighbors& l = nb[i];
            if ((int)l.size() != k)
            {
                r.violation(sf("knn:%s:length", NM[m]), sf("query %d got %zu neighbours, k=%d N=%d", i, l.size(), k, N));
                break;
            }
            std::set<int> s(l.begin(), l.end());
            bool bad = false;
            for (int j : l)
                if (j < 0 || j >= N)
                    bad = true;
            if (bad)
            {
                r.violation(sf("knn:%s:index-out-of-range", NM[m]), sf("query %d", i));
                break;
            }
            if (s.count(i))
            {
                r.violation(sf("knn:%s:contains-self", NM[m]), sf("query %d lists itself", i));
                break;
            }
            if ((int)s.size() != k)
            {
                r.violation(sf("knn:%s:repeated-index", NM[m]), sf("query %d has %zu distinct of %d", i, s.size(), k));
                break;
            }
            if (any_nan)
                continue; // distances not comparable; structural checks only
            std::vector<double> d;
            for (int j : l)
                d.push_back(R(i, j));
            std::sort(d.begin(), d.end());
            bool differ = false;
            double da = 0, db = 0;
            for (int t = 0; t < k; ++t)
            {
                double a = d[t], b = ref[i][t];
                double tol = usek ? (1e-12 * std::max(a * a, b * b) + 64 * 2.3e-16 * kmax) : 1e-12 * std::max(a, b);
                double diff = usek ? std::fabs(a * a - b * b) : std::fabs(a - b);
                if (diff > tol)
                {
                    differ = true;
                    da = a;
                    db = b;
                    break;
                }
            }
            if (differ)
            {
                r.violation(sf("knn:%s:not-nearest", NM[m]),
                            sf("query %d: sorted distances differ from the k smallest (got %.17g, reference %.17g) N=%d k=%d", i, da, db, N, k));
                break;
            }
        }
    }
    r.num["queries"] = (double)queries;
    r.num["tie_queries"] = (double)ties;
    r.num["dup_queries"] = (double)dupq;
    r.nontrivial = N > k + 1 || ties > 0 || dupq > 0;
    r.tags.push_back(sf("%s:%s:%s", usek ? "kernel" : "dist", usek ? c.s("kernel", "linear").c_str() : c.s("dist", "l2").c_str(),
                        c.s("data").c_str()));
    if (ties)
        r.tags.push_back("ties");
    if (dupq)
        r.tags.push_back("dupq");
}

// ---- C03 -----------------------------------------------------------------------------
bool reach_all(const std::vector<std::vector<int>>& adj, int N)
{
    std::vector<char> seen(N, 0);
    std::vector<int> st{0};
    seen[0] = 1;
    int cnt = 1;
    while (!st.empty())
    {
        int u = st.back();
        st.pop_back();
        for (int v : adj[u])
            if (!seen[v])
            {
                seen[v] = 1;
                ++cnt;
                st.push_back(v);
            }
    }
    return cnt == N;
}

bool strongly_connected(const Neighbors& nb, bool* weak = nullptr)
{
    int N = (int)nb.size();
    std::vector<std::vector<int>> f(N), b(N), u(N);
    for (int i = 0; i < N; ++i)
        for (int j : nb[i])
        {
            f[i].push_back(j);
            b[j].push_back(i);
            u[i].push_back(j);
            u[j].push_back(i);
        }
    if (weak)
        *weak = reach_all(u, N);
    return reach_all(f, N) && reach_all(b, N);
}

void run_conn(const Case& c, Result& r)
{
    Mat X0 = make_data(c);
    int N = (int)X0.cols();
    int kreq = (int)c.i("k", 3);
    int m = (int)c.i("nmi", 0);
    int nperm = (int)c.i("nperm", 20);
    Rng g((uint64_t)c.i("pseed", 7));
    CaptureLogger& lg = capture_logger();
    int kfinal0 = -1;
    bool discriminating = false;
    int doublings = 0;
    // The k-NN graph is unique only if no query has a tie between its k'-th and (k'+1)-th distance for the
    // k' values on the doubling schedule; otherwise tie-breaking (random VP-tree pivots, sample order)
    // legitimately changes the graph, and the necessity (b) and order (c) clauses are not decidable.
    bool unique_graph = true;
    {
        MatrixCallbacks cb0(X0);
        Mat R = cb0.distance_matrix();
        for (int kk = std::min(kreq, N - 1); unique_graph; kk = std::min(2 * kk, N - 1))
        {
            if (kk < N - 1)
                for (int i = 0; i < N && unique_graph; ++i)
                {
                    std::vector<double> d;
                    for (int j = 0; j < N; ++j)
                        if (j != i)
                            d.push_back(R(i, j));
                    std::nth_element(d.begin(), d.begin() + kk - 1, d.end());
                    double a = d[kk - 1];
                    double bmin = *std::min_element(d.begin() + kk, d.end());
                    if (!(bmin > a * (1 + 1e-12)))
                        unique_graph = false;
                }
            if (kk >= N - 1)
                break;
        }
    }
    r.num["unique_graph"] = unique_graph ? 1 : 0;
    if (!unique_graph)
        r.inconclusive.push_back("ties at a k-th/(k+1)-th distance: necessity and order clauses skipped");
    for (int p = 0; p < nperm; ++p)
    {
        // permutation p: 0 identity, 1 reverse, 2 "last first" (outliers/small clusters are generated last), then random
        std::vector<int> perm(N);
        for (int i = 0; i < N; ++i)
            perm[i] = i;
        if (p == 1)
            std::reverse(perm.begin(), perm.end());
        else if (p == 2)
            std::rotate(perm.begin(), perm.end() - 1, perm.end());
        else if (p == 3)
            std::rotate(perm.begin(), perm.begin() + N / 2, perm.end());
        else if (p > 3)
            g.shuffle(perm);
        Mat X(X0.rows(), N);
        for (int j = 0; j < N; ++j)
            X.col(j) = X0.col(perm[j]);
        MatrixCallbacks cb(X);
        CbD cd{&cb};
        PlainDistance<It, CbD> pd(cd);
        std::vector<int> idx = iota_indices(N);
        std::srand(1 + p);
        lg.clear();
        Neighbors nb = call_find(m, idx, pd, kreq, true);
        int kfinal = nb.empty() ? -1 : (int)nb[0].size();
        for (auto& l : nb)
            if ((int)l.size() != kfinal)
            {
                r.violation(sf("conn:%s:ragged-lists", NM[m]), sf("perm %d: list lengths differ (%zu vs %d)", p, l.size(), kfinal));
                return;
            }
        // (a) returned graph strongly connected unless k_final = N-1
        bool weak = false;
        bool strong = strongly_connected(nb, &weak);
        if (!strong && kfinal < N - 1)
        {
            r.violation(sf("conn:%s:returned-graph-not-strongly-connected", NM[m]),
                        sf("perm %d: k_req=%d k_final=%d N=%d weakly=%d", p, kreq, kfinal, N, (int)weak));
            return;
        }
        if (!strong && kfinal >= N - 1 && N > 1)
        {
            r.violation(sf("conn:%s:complete-graph-not-connected", NM[m]), sf("perm %d: k_final=%d N=%d", p, kfinal, N));
            return;
        }
        // (b) every raise was necessary: the graph one step earlier (check off) lacked strong connectivity
        int kk = std::min(kreq, N - 1);
        int steps = 0;
        while (kk < kfinal && unique_graph)
        {
            std::srand(1 + p);
            Neighbors prev = call_find(m, idx, pd, kk, false);
            bool w2 = false;
            bool s2 = strongly_connected(prev, &w2);
            if (s2)
            {
                r.violation(sf("conn:%s:raised-although-connected", NM[m]),
                            sf("perm %d: k=%d graph is strongly connected but k was raised to %d", p, kk, kfinal));
                return;
            }
            if (w2 && !s2)
                discriminating = true;
            kk = std::min(2 * kk, N - 1);
            ++steps;
            if (steps > 40)
                break;
        }
        if (!unique_graph)
        {
            // count raises from the log only
            for (auto& w : lg.warning)
                if (w.find("is not connected") != std::string::npos)
                    ++steps;
            kk = kfinal;
        }
        if (kk != kfinal)
        {
            r.violation(sf("conn:%s:kfinal-off-schedule", NM[m]), sf("perm %d: k_final=%d not on the doubling schedule from %d", p, kfinal, kreq));
            return;
        }
        doublings = std::max(doublings, steps);
        // warning log cross-check: number of "not connected" warnings equals the number of raises
        int warned = 0;
        for (auto& w : lg.warning)
            if (w.find("is not connected") != std::string::npos)
                ++warned;
        if (unique_graph && warned != steps)
        {
            r.violation(sf("conn:%s:log-mismatch", NM[m]), sf("perm %d: %d raises but %d warnings", p, steps, warned));
            return;
        }
        // (c) same decision for every order
        if (p == 0)
            kfinal0 = kfinal;
        else if (unique_graph && kfinal != kfinal0)
        {
            r.violation(sf("conn:%s:order-dependent", NM[m]),
                        sf("k_final=%d for the identity order but %d for permutation %d (k_req=%d N=%d)", kfinal0, kfinal, p, kreq, N));
            return;
        }
        // (d) geodesics finite on the returned graph
        if (p < 4 && kfinal >= 1)
        {
            Mat Gd = compute_shortest_distances_matrix(idx.begin(), idx.end(), nb, cd);
            if (!(Gd.maxCoeff() < 1e300) || !Gd.allFinite())
            {
                r.violation(sf("conn:%s:infinite-geodesic", NM[m]), sf("perm %d: a geodesic is not finite (k_final=%d)", p, kfinal));
                return;
            }
        }
        // end-to-end through the public API
        if (p < 3 && c.i("e2e", 1))
        {
            for (const char* meth : {"isomap", "lisomap"})
            {
                Case cc = c;
                cc.kv["method"] = meth;
                cc.kv["td"] = "2";
                cc.kv["nm"] = NM[m];
                cc.kv["conn"] = "1";
                cc.kv["ratio"] = "0.5";
                std::srand(3);
                tapkee::verif::shuffle_seed(5 + p);
                Outcome o = guarded_embed(idx, cb, params_from_case(cc));
                if (o.what != "ok")
                {
                    r.violation(sf("conn:%s:e2e-%s-throws", NM[m], meth),
                                sf("perm %d: %s threw %s (%s) with check_connectivity on; N=%d k=%d", p, meth, o.what.c_str(),
                                   o.message.c_str(), N, kreq));
                    return;
                }
                if (!o.out.embedding.allFinite())
                {
                    r.violation(sf("conn:%s:e2e-%s-nonfinite", NM[m], meth), sf("perm %d: non-finite embedding N=%d k=%d", p, N, kreq));
                    return;
                }
            }
        }
    }
    r.num["doublings"] = doublings;
    r.num["perms"] = nperm;
    r.num["kfinal"] = kfinal0;
    r.nontrivial = discriminating || doublings > 0;
    r.tags.push_back(sf("%s:%s:raise%d", NM[m], c.s("data").c_str(), doublings > 0));
    if (discriminating)
        r.tags.push_back("weak-not-strong");
}

void run_case(const Case& c, Result& r)
{
    if (c.s("mode") == "conn")
        run_conn(c, r);
    else
        run_knn(c, r);
}
} // namespace

int main(int argc, char** argv)
{
    return driver_main(argc, argv, run_case, vh::install_tick);
}
