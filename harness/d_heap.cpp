// C16: Fibonacci heap driven in lock-step with a std::map model, with a white-box
// structural walk after operations (compiled with -fno-access-control).
#include "common/common.hpp"
#include <tapkee/utils/fibonacci_heap.hpp>

using namespace vh;
using tapkee::tapkee_internal::fibonacci_heap;
using tapkee::tapkee_internal::fibonacci_heap_node;

namespace
{
struct Model
{
    std::map<int, double> m;
    int cap;
};

struct Harness
{
    fibonacci_heap h;
    Model model;
    Result& r;
    long ops = 0;
    int max_rank = 0;
    bool failed = false;
    std::string trace; // last operations (bounded)

    Harness(int cap, Result& res) : h(cap), r(res)
    {
        model.cap = cap;
    }

    void note(const std::string& s)
    {
        trace += s;
        trace += ' ';
        if (trace.size() > 600)
            trace.erase(0, trace.size() - 400);
    }

    void fail(const std::string& key, const std::string& detail)
    {
        failed = true;
        r.violation(key, detail + " after ops: ..." + trace);
    }

    int idx_of(fibonacci_heap_node* n)
    {
        if (!n)
            return -1;
        for (int i = 0; i < h.max_num_nodes; ++i)
            if (h.nodes[i] == n)
                return i;
        return -2;
    }

    // Full serialization of the heap state (pointers as slot numbers): two heaps with equal
    // serializations behave identically under every continuation.
    std::string serialize()
    {
        std::ostringstream o;
        o << idx_of(h.min_root) << '/' << h.num_nodes << '/' << h.num_trees << ';';
        for (int i = 0; i < h.max_num_nodes; ++i)
        {
            fibonacci_heap_node* n = h.nodes[i];
            if (n->index == -1)
            {
                o << "-;";
                continue;
            }
            o << idx_of(n->parent) << ',' << idx_of(n->child) << ',' << idx_of(n->left) << ',' << idx_of(n->right) << ','
              << n->rank << ',' << (n->marked ? 1 : 0) << ',' << n->index << ',' << n->key << ';';
        }
        return o.str();
    }

    // White-box structural invariants. Returns false (and records) on the first failure.
    bool walk()
    {
        int cap = h.max_num_nodes;
        int stored = 0;
        for (int i = 0; i < cap; ++i)
        {
            int ix = h.nodes[i]->index;
            if (ix != -1 && ix != i)
            {
                fail("invariant:slot-index", sf("nodes[%d]->index=%d", i, ix));
                return false;
            }
            if (ix == i)
                ++stored;
        }
        if (stored != h.num_nodes)
        {
            fail("invariant:num_nodes", sf("stored slots %d, num_nodes %d", stored, h.num_nodes));
            return false;
        }
        if ((h.min_root == NULL) != (h.num_nodes == 0))
        {
            fail("invariant:min_root-null", sf("min_root %s but num_nodes=%d", h.min_root ? "set" : "NULL", h.num_nodes));
            return false;
        }
        if (!h.min_root)
            return true;
        std::vector<char> seen(cap, 0);
        int roots = 0;
        long guard = 0;
        // iterative DFS over root list and children lists
        struct Item
        {
            fibonacci_heap_node* first;
            fibonacci_heap_node* parent;
        };
        std::vector<Item> stack;
        stack.push_back({h.min_root, NULL});
        int visited = 0;
        double minkey = h.min_root->key;
        while (!stack.empty())
        {
            Item it = stack.back();
            stack.pop_back();
            fibonacci_heap_node* n = it.first;
            int count = 0;
            do
            {
                if (++guard > 4L * cap + 16)
                {
                    fail("invariant:list-not-circular", "sibling list does not close");
                    return false;
                }
                int ix = idx_of(n);
                if (ix < 0 || n->index != ix)
                {
                    fail("invariant:foreign-node", sf("node slot %d index %d in a list", ix, n ? n->index : -9));
                    return false;
                }
                if (seen[ix])
                {
                    fail("invariant:reached-twice", sf("index %d reachable twice", ix));
                    return false;
                }
                seen[ix] = 1;
                ++visited;
                ++count;
                if (n->parent != it.parent)
                {
                    fail("invariant:parent-pointer", sf("index %d has wrong parent", ix));
                    return false;
                }
                if (!n->right || !n->left || n->right->left != n || n->left->right != n)
                {
                    fail("invariant:sibling-links", sf("index %d left/right inconsistent", ix));
                    return false;
                }
                if (it.parent && n->key < it.parent->key)
                {
                    fail("invariant:heap-order", sf("index %d key %g below parent key %g", ix, n->key, it.parent->key));
                    return false;
                }
                if (n->key < minkey)
                {
                    fail("invariant:min_root-not-min", sf("index %d key %g < min_root key %g", ix, n->key, minkey));
                    return false;
                }
                if (n->rank > max_rank)
                    max_rank = n->rank;
                if (n->child)
                    stack.push_back({n->child, n});
                else if (n->rank != 0)
                {
                    fail("invariant:rank", sf("index %d rank %d without children", ix, n->rank));
                    return false;
                }
                n = n->right;
            } while (n != it.first);
            if (it.parent)
            {
                if (it.parent->rank != count)
                {
                    fail("invariant:rank", sf("index %d rank %d but %d children", idx_of(it.parent), it.parent->rank, count));
                    return false;
                }
            }
            else
                roots = count;
        }
        if (visited != h.num_nodes)
        {
            fail("invariant:unreachable", sf("%d reachable of %d stored", visited, h.num_nodes));
            return false;
        }
        if (roots != h.num_trees)
        {
            fail("invariant:num_trees", sf("%d roots, num_trees %d", roots, h.num_trees));
            return false;
        }
        return true;
    }

    bool check_size()
    {
        if (h.get_num_nodes() != (int)model.m.size() || h.empty() != model.m.empty())
        {
            fail("model:size", sf("get_num_nodes %d empty %d, model %zu", h.get_num_nodes(), (int)h.empty(), model.m.size()));
            return false;
        }
        return true;
    }

    // --- operations, each checked against the model; `strict` additionally requires no-ops to leave the
    //     complete serialized state untouched.
    bool op_insert(int i, double key, bool strict)
    {
        ++ops;
        note(sf("I(%d,%g)", i, key));
        bool noop = (i < 0 || i >= model.cap || model.m.count(i));
        std::string before = strict && noop ? serialize() : "";
        h.insert(i, key);
        if (!noop)
            model.m[i] = key;
        else if (strict && serialize() != before)
        {
            fail("model:noop-insert-changed-state", sf("insert(%d) of stored/out-of-range index changed the heap", i));
            return false;
        }
        return check_size();
    }
    bool op_decrease(int i, double key, bool strict)
    {
        ++ops;
        note(sf("D(%d,%g)", i, key));
        bool noop = (i < 0 || i >= model.cap || !model.m.count(i) || key > model.m[i]);
        std::string before = strict && noop ? serialize() : "";
        double k = key;
        h.decrease_key(i, k);
        if (!noop)
            model.m[i] = key;
        else if (strict && serialize() != before)
        {
            fail("model:noop-decrease-changed-state", sf("decrease_key(%d,%g) that must be a no-op changed the heap", i, key));
            return false;
        }
        // get_key must agree with the model for this index
        double gk = -1;
        int gi = h.get_key(i, gk);
        bool in = (i >= 0 && i < model.cap && model.m.count(i));
        if ((gi == -1) == in || (in && (gi != i || gk != model.m[i])))
        {
            fail("model:get_key", sf("get_key(%d) -> %d,%g; model has %s", i, gi, gk, in ? "it" : "nothing"));
            return false;
        }
        return check_size();
    }
    bool op_extract()
    {
        ++ops;
        note("X");
        double key = -12345.0;
        int i = h.extract_min(key);
        if (model.m.empty())
        {
            if (i != -1)
            {
                fail("model:extract-empty", sf("extract_min on empty heap returned %d", i));
                return false;
            }
            return check_size();
        }
        double mn = model.m.begin()->second;
        for (auto& kv : model.m)
            mn = std::min(mn, kv.second);
        auto it = model.m.find(i);
        if (it == model.m.end())
        {
            fail("model:extract-absent", sf("extract_min returned index %d that is not stored", i));
            return false;
        }
        if (it->second != mn || key != mn)
        {
            fail("model:extract-not-min", sf("extract_min returned (%d,%g); stored key %g, minimum %g", i, key, it->second, mn));
            return false;
        }
        model.m.erase(it);
        return check_size();
    }
    bool op_clear()
    {
        ++ops;
        note("C");
        h.clear();
        model.m.clear();
        return check_size();
    }
};

// --------------------------------------------------------------- bounded-exhaustive exploration
struct Op
{
    char t;
    int i;
    double k;
};

bool apply(Harness& H, const Op& o, bool strict)
{
    switch (o.t)
    {
    case 'I':
        return H.op_insert(o.i, o.k, strict);
    case 'D':
        return H.op_decrease(o.i, o.k, strict);
    case 'X':
        return H.op_extract();
    default:
        return H.op_clear();
    }
}

void run_exhaustive(const Case& c, Result& r)
{
    int cap = (int)c.i("cap", 3), depth = (int)c.i("depth", 6), nkeys = (int)c.i("keys", 3);
    long max_states = c.i("maxstates", 400000);
    std::vector<Op> alphabet;
    for (int i = -1; i <= cap; ++i)
        for (int k = 0; k < nkeys; ++k)
        {
            alphabet.push_back({'I', i, (double)k});
            alphabet.push_back({'D', i, (double)k});
        }
    alphabet.push_back({'X', 0, 0});
    alphabet.push_back({'C', 0, 0});
    std::set<std::string> seen;
    std::vector<std::vector<Op>> frontier, next;
    {
        Result tmp;
        Harness H(cap, tmp);
        seen.insert(H.serialize());
    }
    frontier.push_back({});
    long transitions = 0;
    int level = 0;
    bool closed = false, truncated = false;
    int max_rank = 0;
    for (level = 0; level < depth && !frontier.empty(); ++level)
    {
        next.clear();
        for (auto& pre : frontier)
        {
            for (auto& o : alphabet)
            {
                Harness H(cap, r);
                bool ok = true;
                for (auto& p : pre)
                    ok = ok && apply(H, p, false);
                H.trace.clear();
                for (auto& p : pre)
                    H.note(sf("%c(%d,%g)", p.t, p.i, p.k));
                ok = ok && apply(H, o, true) && H.walk();
                ++transitions;
                max_rank = std::max(max_rank, H.max_rank);
                if (!ok)
                    return;
                std::string s = H.serialize();
                if (seen.insert(s).second)
                {
                    if ((long)seen.size() > max_states)
                    {
                        truncated = true;
                        continue;
                    }
                    auto seq = pre;
                    seq.push_back(o);
                    next.push_back(seq);
                }
            }
        }
        frontier.swap(next);
    }
    closed = frontier.empty() && !truncated;
    r.num["states"] = (double)seen.size();
    r.num["transitions"] = (double)transitions;
    r.num["levels"] = level;
    r.num["closed"] = closed ? 1 : 0; // fixpoint: every history over this alphabet is covered
    r.num["truncated"] = truncated ? 1 : 0;
    r.num["max_rank"] = max_rank;
    r.nontrivial = seen.size() > 10;
    r.tags.push_back(sf("exh:cap%d:keys%d", cap, nkeys));
}

// --------------------------------------------------------------- random histories
void run_random(const Case& c, Result& r)
{
    int cap = (int)c.i("cap", 100);
    long len = c.i("len", 10000);
    Rng g((uint64_t)c.i("seed", 1));
    Harness H(cap, r);
    int nk = (int)c.i("keys", 0); // 0 = continuous keys, else small alphabet (tie-rich)
    double pI = c.d("pI", 0.4), pD = c.d("pD", 0.35), pX = c.d("pX", 0.24);
    long walk_every = std::max(1L, len / std::max(1L, c.i("walks", 400)));
    int Dn = H.h.Dn;
    for (long t = 0; t < len && !H.failed; ++t)
    {
        double u = g.uni();
        double key = nk ? (double)g.below(nk) : g.uni(0, 1000);
        int idx = g.range(-1, cap); // includes out-of-range on both sides
        if (g.uni() < 0.9 && cap > 0)
            idx = g.below(cap);
        if (u < pI)
            H.op_insert(idx, key, false);
        else if (u < pI + pD)
        {
            // mostly real decreases of stored indices
            if (!H.model.m.empty() && g.uni() < 0.85)
            {
                auto it = H.model.m.lower_bound(idx);
                if (it == H.model.m.end())
                    it = H.model.m.begin();
                idx = it->first;
                key = nk ? (double)g.below((int)it->second + 1) : it->second * g.uni();
            }
            H.op_decrease(idx, key, false);
        }
        else if (u < pI + pD + pX)
            H.op_extract();
        else
            H.op_clear();
        if (t % walk_every == 0 && !H.failed)
            H.walk();
    }
    if (!H.failed)
        H.walk();
    // drain: extraction order must be sorted
    double last = -1e300;
    while (!H.failed && !H.model.m.empty())
    {
        double mn = 1e300;
        for (auto& kv : H.model.m)
            mn = std::min(mn, kv.second);
        if (!H.op_extract())
            break;
        if (mn < last)
            H.fail("model:drain-order", "drain not sorted");
        last = mn;
    }
    r.num["ops"] = (double)H.ops;
    r.num["max_rank"] = H.max_rank;
    r.num["Dn"] = Dn;
    r.nontrivial = H.ops > 10;
    r.tags.push_back(sf("rand:cap%d", cap));
}

// --------------------------------------------------------------- adversarial thin-tree generator
// Reads the live shape: after building trees by extract_min, cut one child from every node that can lose
// one without a cascading cut (unmarked), extract the cut nodes, refill, repeat. Produces maximally thin trees.
void run_adversarial(const Case& c, Result& r)
{
    int cap = (int)c.i("cap", 15);
    long rounds = c.i("rounds", 3000);
    Rng g((uint64_t)c.i("seed", 1));
    Harness H(cap, r);
    int Dn = H.h.Dn;
    double floor_key = 1e6; // keys decrease over time so that new cuts are always possible
    bool cascade = c.s("strategy", "thin") == "cascade";
    auto refill = [&]() {
        for (int i = 0; i < cap && !H.failed; ++i)
            if (!H.model.m.count(i))
                H.op_insert(i, floor_key + 1000 + g.uni(0, 1000), false);
    };
    refill();
    for (long t = 0; t < rounds && !H.failed; ++t)
    {
        // consolidate: insert a sentinel minimum and extract it (links all roots)
        int sentinel = -1;
        for (int i = 0; i < cap; ++i)
            if (!H.model.m.count(i))
            {
                sentinel = i;
                break;
            }
        if (sentinel < 0)
        {
            if (!H.op_extract())
                break;
        }
        else
        {
            H.op_insert(sentinel, floor_key - 1, false);
            if (H.failed || !H.op_extract())
                break;
        }
        if (!H.walk())
            break;
        if (cascade)
        {
            // second shape-reading pattern: make nodes leave their parent *through the cascade*. For an unmarked non-root y and
            // each child c of y, decrease as many children of c as it takes to have c cut by the cascading cut (two, or one if
            // c is already marked). What the implementation does to y at the point where the cascade stops decides whether
            // y can go on losing children without being cut itself, i.e. whether ranks stay logarithmic in the size.
            auto ring = [&](fibonacci_heap_node* first) {
                std::vector<fibonacci_heap_node*> v;
                if (!first)
                    return v;
                fibonacci_heap_node* n = first;
                int guard = 0;
                do
                {
                    v.push_back(n);
                    n = n->right;
                } while (n != first && ++guard < cap + 2);
                return v;
            };
            long cuts = 0;
            bool deep = c.i("deep", 0) != 0;
            std::vector<fibonacci_heap_node*> level = ring(H.h.min_root);
            for (int depth = 0; depth < (deep ? 64 : 1) && !level.empty() && !H.failed; ++depth)
            {
                std::vector<fibonacci_heap_node*> below;
                for (fibonacci_heap_node* z : level)
                    for (fibonacci_heap_node* y : ring(z->child))
                    {
                        if (y->parent != z)
                            continue;
                        below.push_back(y);
                        if (y->marked || g.uni() >= c.d("pcut", 0.9))
                            continue;
                        for (fibonacci_heap_node* ch : ring(y->child))
                        {
                            if (ch->parent != y || H.failed)
                                continue;
                            int need = ch->marked ? 1 : 2;
                            std::vector<fibonacci_heap_node*> gc = ring(ch->child);
                            if ((int)gc.size() >= need)
                            {
                                for (int j = 0; j < need && !H.failed; ++j)
                                {
                                    floor_key -= 1;
                                    H.op_decrease(gc[j]->index, floor_key, false);
                                    ++cuts;
                                }
                            }
                            else if (!ch->marked && gc.size() == 1)
                            {
                                floor_key -= 1;
                                H.op_decrease(gc[0]->index, floor_key, false);
                                ++cuts;
                            }
                        }
                    }
                level.swap(below);
            }
            if (H.failed || !H.walk())
                break;
            if (cuts == 0)
            {
                // out of moves: shake the shape with a few extractions and a refill
                for (int q = 0; q < 3 && !H.failed && !H.model.m.empty(); ++q)
                    H.op_extract();
                refill();
            }
            continue;
        }
        // choose victims: for every non-root node whose parent is unmarked (or is a root), pick at most one
        // child per parent -- the child with the largest rank (keeps the parent's rank-1 thin subtree).
        std::vector<int> victims;
        for (int i = 0; i < cap; ++i)
        {
            fibonacci_heap_node* n = H.h.nodes[i];
            if (n->index == -1 || !n->child)
                continue;
            if (n->parent && n->marked)
                continue; // would cascade; keep it
            fibonacci_heap_node* best = NULL;
            fibonacci_heap_node* ch = n->child;
            int guard = 0;
            do
            {
                if (!best || ch->rank > best->rank || (ch->rank == best->rank && g.uni() < 0.5))
                    best = ch;
                ch = ch->right;
            } while (ch != n->child && ++guard < cap + 2);
            if (best && g.uni() < c.d("pcut", 0.9))
                victims.push_back(best->index);
        }
        // cut victims (decrease below everything), then extract them one at a time
        for (int v : victims)
        {
            floor_key -= 1;
            if (!H.op_decrease(v, floor_key, false))
                break;
        }
        if (H.failed || !H.walk())
            break;
        size_t nx = victims.size();
        if (g.uni() < 0.3)
            nx = g.below((int)nx + 1);
        for (size_t q = 0; q < nx && !H.failed; ++q)
            H.op_extract();
        if (!H.failed && g.uni() < c.d("prefill", 0.7))
            refill();
        if (!H.failed && t % 16 == 0)
            H.walk();
    }
    r.num["ops"] = (double)H.ops;
    r.num["max_rank"] = H.max_rank;
    r.num["Dn"] = Dn;
    r.nontrivial = H.ops > 10;
    r.tags.push_back(sf("adv%s:cap%d:maxrank%d:Dn%d", cascade ? "-cascade" : "", cap, H.max_rank, Dn));
}

// --------------------------------------------------------------- Dijkstra-shaped histories
void run_dijkstra(const Case& c, Result& r)
{
    int N = (int)c.i("cap", 50), k = (int)c.i("k", 4);
    Rng g((uint64_t)c.i("seed", 1));
    // random directed graph with k out-edges per vertex and integer or real weights
    bool intw = c.i("intw", 0) != 0;
    std::vector<std::vector<std::pair<int, double>>> adj(N);
    for (int i = 0; i < N; ++i)
        for (int e = 0; e < k; ++e)
            adj[i].push_back({g.below(N), intw ? (double)g.range(1, 4) : g.uni(0.1, 10)});
    Harness H(N, r);
    for (int src = 0; src < std::min(N, (int)c.i("sources", 8)) && !H.failed; ++src)
    {
        std::vector<double> dist(N, 1e300);
        std::vector<char> done(N, 0), inq(N, 0);
        dist[src] = 0;
        H.op_insert(src, 0, false);
        inq[src] = 1;
        while (!H.model.m.empty() && !H.failed)
        {
            double mn = 1e300;
            for (auto& kv : H.model.m)
                mn = std::min(mn, kv.second);
            // which index comes out is up to the heap (ties); read it from the model after extraction
            std::map<int, double> before = H.model.m;
            if (!H.op_extract())
                break;
            int u = -1;
            for (auto& kv : before)
                if (!H.model.m.count(kv.first))
                    u = kv.first;
            done[u] = 1;
            inq[u] = 0;
            for (auto& e : adj[u])
            {
                int w = e.first;
                if (done[w])
                    continue;
                double nd = dist[u] + e.second;
                if (nd < dist[w])
                {
                    dist[w] = nd;
                    if (inq[w])
                        H.op_decrease(w, nd, false);
                    else
                    {
                        H.op_insert(w, nd, false);
                        inq[w] = 1;
                    }
                }
            }
            if (H.ops % 64 == 0)
                H.walk();
        }
        if (!H.failed)
        {
            H.walk();
            H.op_clear();
        }
    }
    r.num["ops"] = (double)H.ops;
    r.num["max_rank"] = H.max_rank;
    r.nontrivial = H.ops > 10;
    r.tags.push_back(sf("dij:cap%d", N));
}

void run_case(const Case& c, Result& r)
{
    std::string mode = c.s("mode", "rand");
    if (mode == "exh")
        run_exhaustive(c, r);
    else if (mode == "adv")
        run_adversarial(c, r);
    else if (mode == "dij")
        run_dijkstra(c, r);
    else
        run_random(c, r);
}
} // namespace

static void install(void (*h)(const char*))
{
    tapkee::verif::tick_handler() = h;
}

int main(int argc, char** argv)
{
    return driver_main(argc, argv, run_case, install);
}
