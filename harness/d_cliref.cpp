// C20 reference: the library result for the parameters a CLI invocation is supposed to pass, computed in-process through
// tapkee::with(params).embedUsing(matrix) (the same call the CLI makes without --precompute) and written with full precision.
// usage: cliref <data file: one sample per line, space separated> <out prefix> key=value...
#include "common/callbacks.hpp"
#include "common/forms.hpp"
#include <fstream>

using namespace vh;

int main(int argc, char** argv)
{
    if (argc < 3)
        return 2;
    std::ifstream in(argv[1]);
    std::vector<std::vector<double>> rows;
    std::string line;
    while (std::getline(in, line))
    {
        std::istringstream ss(line);
        std::vector<double> r;
        double v;
        while (ss >> v)
            r.push_back(v);
        if (!r.empty())
            rows.push_back(r);
    }
    int N = (int)rows.size(), D = N ? (int)rows[0].size() : 0;
    Mat X(D, N);
    for (int j = 0; j < N; ++j)
        for (int i = 0; i < D; ++i)
            X(i, j) = rows[j][i];
    std::string caseline;
    for (int a = 3; a < argc; ++a)
        caseline += std::string(argv[a]) + " ";
    Case c = parse_case(caseline);
    // the CLI always passes every keyword: its own defaults apply where the option is absent
    Case full = c;
    auto def = [&](const char* k, const char* v) {
        if (!full.has(k))
            full.kv[k] = v;
    };
    def("td", "2");
    def("k", "10");
    def("nm", "covertree");
    def("em", "dense");
    def("width", "1.0");
    def("timesteps", "1");
    def("maxiter", "1000");
    def("speglobal", "1");
    def("speupd", "100");
    def("spetol", "0.00001");
    def("ratio", "0.2");
    def("nshift", "0.0"); // std::to_string(1e-9) == "0.000000": the CLI's default eigenshift is 0
    def("conn", "1");
    def("faeps", "0.00001");
    def("perp", "30.0");
    def("theta", "0.5");
    def("squish", "0.99");
    std::srand(1);
    Outcome o = form_matrix(X, params_from_case(full));
    std::string prefix = argv[2];
    std::ofstream st(prefix + ".status");
    st << o.what << "\n" << o.message << "\n";
    if (o.what != "ok")
        return 0;
    {
        std::ofstream f(prefix + ".emb");
        f.precision(17);
        const Mat& Y = o.out.embedding;
        for (int i = 0; i < Y.rows(); ++i)
        {
            for (int j = 0; j < Y.cols(); ++j)
                f << Y(i, j) << (j + 1 < Y.cols() ? " " : "");
            f << "\n";
        }
    }
    tapkee::MatrixProjectionImplementation* pi = dynamic_cast<tapkee::MatrixProjectionImplementation*>(o.out.projection.implementation.get());
    if (pi)
    {
        std::ofstream f(prefix + ".pmat");
        f.precision(17);
        for (int i = 0; i < pi->proj_mat.rows(); ++i)
        {
            for (int j = 0; j < pi->proj_mat.cols(); ++j)
                f << pi->proj_mat(i, j) << (j + 1 < pi->proj_mat.cols() ? " " : "");
            f << "\n";
        }
        std::ofstream g(prefix + ".pmean");
        g.precision(17);
        for (int i = 0; i < pi->mean_vec.size(); ++i)
            g << pi->mean_vec(i) << "\n";
    }
    return 0;
}
