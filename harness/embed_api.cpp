#include "common/embed_api.hpp"
#include <tapkee/tapkee.hpp>
#include <cxxabi.h>
#include <typeinfo>

namespace vh
{
namespace
{
struct KCb
{
    VCallbacks* c;
    inline tapkee::ScalarType kernel(int a, int b) const
    {
        return c->kernel(a, b);
    }
};
struct DCb
{
    VCallbacks* c;
    inline tapkee::ScalarType distance(int a, int b) const
    {
        return c->distance(a, b);
    }
};
struct FCb
{
    VCallbacks* c;
    inline tapkee::IndexType dimension() const
    {
        return c->dimension();
    }
    inline void vector(int a, tapkee::DenseVector& v) const
    {
        c->features(a, v);
    }
};
} // namespace

tapkee::TapkeeOutput& carried_output()
{
    static thread_local tapkee::TapkeeOutput held;
    return held;
}

tapkee::TapkeeOutput embed_uniform(std::vector<int>& indices, VCallbacks& cb, tapkee::ParametersSet params)
{
    KCb k{&cb};
    DCb d{&cb};
    FCb f{&cb};
    // assigned over the previous call's result (result = tapkee::embed(...)), then copied out
    tapkee::TapkeeOutput& held = carried_output();
    // the samples are handed over as a sub-range of a larger container whose other elements are not samples at all: a callback
    // invoked with one of them (element before begin, element at end, position arithmetic on the container) maps to no column
    std::vector<int> padded;
    padded.reserve(indices.size() + 5);
    for (int i = 0; i < 3; ++i)
        padded.push_back(NOT_A_SAMPLE);
    padded.insert(padded.end(), indices.begin(), indices.end());
    for (int i = 0; i < 2; ++i)
        padded.push_back(NOT_A_SAMPLE);
    held = tapkee::embed(padded.begin() + 3, padded.end() - 2, k, d, f, params);
    return held;
}

void classify_current_exception(Outcome& o)
{
    o.documented = true;
    try
    {
        throw;
    }
#define VH_CATCH(T)                                                                                                    \
    catch (const tapkee::T& e)                                                                                         \
    {                                                                                                                  \
        o.what = #T;                                                                                                   \
        o.message = e.what();                                                                                          \
    }
    VH_CATCH(no_data_error)
    VH_CATCH(unsupported_method_error)
    VH_CATCH(not_enough_memory_error)
    VH_CATCH(cancelled_exception)
    VH_CATCH(eigendecomposition_error)
    VH_CATCH(missed_parameter_error)
    VH_CATCH(wrong_parameter_error)
    VH_CATCH(wrong_parameter_type_error)
    VH_CATCH(multiple_parameter_error)
#undef VH_CATCH
    catch (const std::exception& e)
    {
        int st = 0;
        char* dn = abi::__cxa_demangle(typeid(e).name(), nullptr, nullptr, &st);
        o.what = std::string("std::exception:") + (dn ? dn : typeid(e).name());
        free(dn);
        o.message = e.what();
        o.documented = false;
    }
    catch (...)
    {
        o.what = "unknown";
        o.documented = false;
    }
}

Outcome guarded_embed(std::vector<int>& indices, VCallbacks& cb, tapkee::ParametersSet params)
{
    Outcome o;
    try
    {
        o.out = embed_uniform(indices, cb, params);
        o.what = "ok";
    }
    catch (...)
    {
        classify_current_exception(o);
    }
    return o;
}
} // namespace vh
