#include "common/embed_api.hpp"
#include <tapkee/tapkee.hpp>
#include <cxxabi.h>
#include <typeinfo>

namespace vh
{
namespace
{
struct KCb
{
    VCallbacks* c;
    inline tapkee::ScalarType kernel(int a, int b) const
    {
        return c->kernel(a, b);
    }
};
struct DCb
{
    VCallbacks* c;
    inline tapkee::ScalarType distance(int a, int b) const
    {
        return c->distance(a, b);
    }
};
struct FCb
{
    VCallbacks* c;
    inline tapkee::IndexType dimension() const
    {
        return c->dimension();
    }
    inline void vector(int a, tapkee::DenseVector& v) const
    {
        c->features(a, v);
    }
};
} // namespace

tapkee::TapkeeOutput& carried_output()
{
    static thread_local tapkee::TapkeeOutput held;
    return held;
}

tapkee::TapkeeOutput embed_uniform(std::vector<int>& indices, VCallbacks& cb, tapkee::ParametersSet params)
{
    KCb k{&cb};
    DCb d{&cb};
    FCb f{&cb};
    // assigned over the previous call's result (result = tapkee::embed(...)), then copied out
    tapkee::TapkeeOutput& held = carried_output();
    // the samples are handed over as a sub-range of a larger container whose other elements are not samples at all: a callback
    // invoked with one of them (element before begin, element at end, position arithmetic on the container) maps to no column
    std::vector<int> padded;
    padded.reserve(indices.size() + 5);
    for (int i = 0; i < 3; ++i)
        padded.push_back(NOT_A_SAMPLE);
    padded.insert(padded.end(), indices.begin(), indices.end());
    for (int i = 0; i < 2; ++i)
        padded.push_back(NOT_A_SAMPLE);
    held = tapkee::embed(padded.begin() + 3, padded.end() - 2, k, d, f, params);
    return held;
}

// The library's own callback types (eigen_kernel_callback, eigen_distance_callback, eigen_features_callback) over a feature
// matrix that holds more columns than are embedded: the samples are a shuffled subset of its columns, the other columns hold
// unrelated vectors far away. Anything computed "over the matrix" instead of "over the range" (means, sizes) shows.
Outcome guarded_embed_eigen_subrange(const Eigen::MatrixXd& X, unsigned long seed, tapkee::ParametersSet params)
{
    Outcome o;
    const int N = (int)X.cols(), D = (int)X.rows(), extra = N / 2 + 3;
    uint64_t state = seed * 6364136223846793005ull + 1442695040888963407ull;
    auto next = [&]() {
        state ^= state << 13;
        state ^= state >> 7;
        state ^= state << 17;
        return state;
    };
    std::vector<tapkee::IndexType> where(N + extra);
    for (int i = 0; i < N + extra; ++i)
        where[i] = i;
    for (int i = N + extra - 1; i > 0; --i)
        std::swap(where[i], where[(int)(next() % (uint64_t)(i + 1))]);
    tapkee::DenseMatrix big(D, N + extra);
    double scale = std::max(1.0, X.cwiseAbs().maxCoeff());
    for (int j = 0; j < N + extra; ++j)
        for (int i = 0; i < D; ++i)
            big(i, where[j]) = j < N ? X(i, j) : scale * (50.0 + (double)(next() % 1000) / 10.0);
    std::vector<tapkee::IndexType> labels(where.begin(), where.begin() + N);
    tapkee::eigen_kernel_callback kcb(big);
    tapkee::eigen_distance_callback dcb(big);
    tapkee::eigen_features_callback fcb(big);
    try
    {
        tapkee::TapkeeOutput& held = carried_output();
        held = tapkee::embed(labels.begin(), labels.end(), kcb, dcb, fcb, params);
        o.out = held;
        o.what = "ok";
    }
    catch (...)
    {
        classify_current_exception(o);
    }
    return o;
}

void classify_current_exception(Outcome& o)
{
    o.documented = true;
    try
    {
        throw;
    }
#define VH_CATCH(T)                                                                                                    \
    catch (const tapkee::T& e)                                                                                         \
    {                                                                                                                  \
        o.what = #T;                                                                                                   \
        o.message = e.what();                                                                                          \
    }
    VH_CATCH(no_data_error)
    VH_CATCH(unsupported_method_error)
    VH_CATCH(not_enough_memory_error)
    VH_CATCH(cancelled_exception)
    VH_CATCH(eigendecomposition_error)
    VH_CATCH(missed_parameter_error)
    VH_CATCH(wrong_parameter_error)
    VH_CATCH(wrong_parameter_type_error)
    VH_CATCH(multiple_parameter_error)
#undef VH_CATCH
    catch (const std::exception& e)
    {
        int st = 0;
        char* dn = abi::__cxa_demangle(typeid(e).name(), nullptr, nullptr, &st);
        o.what = std::string("std::exception:") + (dn ? dn : typeid(e).name());
        free(dn);
        o.message = e.what();
        o.documented = false;
    }
    catch (...)
    {
        o.what = "unknown";
        o.documented = false;
    }
}

Outcome guarded_embed(std::vector<int>& indices, VCallbacks& cb, tapkee::ParametersSet params)
{
    Outcome o;
    try
    {
        o.out = embed_uniform(indices, cb, params);
        o.what = "ok";
    }
    catch (...)
    {
        classify_current_exception(o);
    }
    return o;
}
} // namespace vh
