// C04: compute_shortest_distances_matrix (both overloads) vs Floyd-Warshall / reference Dijkstra on the
// same neighbour lists; thread-count and heap back-end independence (bitwise); Isomap = classical MDS of them.
#include "common/callbacks.hpp"
#include "common/refs.hpp"
#include <omp.h>
#include <tapkee/neighbors/neighbors.hpp>
#include <tapkee/routines/isomap.hpp>

using namespace vh;
using namespace tapkee;
using namespace tapkee::tapkee_internal;

namespace
{
typedef std::vector<int>::iterator It;
struct CbD
{
    MatrixCallbacks* c;
    double distance(int a, int b) const
    {
        return c->distance(a, b);
    }
};

#ifdef TAPKEE_USE_FIBONACCI_HEAP
const char* BACKEND = "fh";
#else
const char* BACKEND = "pq";
#endif

void run_geo(const Case& c, Result& r)
{
    int N = (int)c.i("N", 20), k = (int)c.i("k", 3);
    Rng g((uint64_t)c.i("gseed", 1) * 77 + 5);
    Mat X;
    Mat W; // weights used through the callback
    Neighbors nb;
    std::vector<int> idx = iota_indices(N);
    bool metric = false;
    std::string graph = c.s("graph", "knn");
    Mat Xdummy = Mat::Zero(1, N);
    if (graph == "knn")
    {
        X = make_data(c);
        N = (int)X.cols();
        idx = iota_indices(N);
        MatrixCallbacks cb(X);
        configure_callbacks(cb, c);
        W = cb.distance_matrix();
        CbD cd{&cb};
        PlainDistance<It, CbD> pd(cd);
        std::srand(7);
        nb = find_neighbors(Brute, idx.begin(), idx.end(), pd, k, false);
        metric = true;
    }
    else
    {
        // synthetic k-out digraph; symmetric weights, integer (tie-rich) or real
        bool intw = c.i("intw", 1) != 0;
        W = Mat::Zero(N, N);
        for (int i = 0; i < N; ++i)
            for (int j = i + 1; j < N; ++j)
                W(i, j) = W(j, i) = intw ? (double)g.range(1, 4) : g.uni(0.1, 5.0);
        nb.resize(N);
        int comps = std::max(1, (int)c.i("components", 1)); // >1: deliberately disconnected
        for (int i = 0; i < N; ++i)
        {
            std::set<int> s;
            int guard = 0;
            while ((int)s.size() < k && guard++ < 100000)
            {
                int j = g.below(N);
                if (j == i || (j % comps) != (i % comps))
                    continue;
                s.insert(j);
            }
            // pad (only if the component is too small) with self-consistent entries
            for (int j = 0; (int)s.size() < k && j < N; ++j)
                if (j != i)
                    s.insert(j);
            nb[i].assign(s.begin(), s.end());
            g.shuffle(nb[i]);
        }
        if (graph == "ring")
        {
            // regular ring lattice: many equal-length paths
            for (int i = 0; i < N; ++i)
            {
                nb[i].clear();
                for (int t = 1; (int)nb[i].size() < k; ++t)
                {
                    nb[i].push_back((i + t) % N);
                    if ((int)nb[i].size() < k)
                        nb[i].push_back((i - t + N) % N);
                }
            }
        }
    }
    MatrixCallbacks cbw(Xdummy);
    cbw.dk = D_MATRIX;
    cbw.Dm = &W;
    CbD cdw{&cbw};

    std::vector<std::vector<int>> lists(nb.begin(), nb.end());
    const double INF = std::numeric_limits<double>::infinity();
    Mat Gref;
    if (N <= 150)
        Gref = floyd_warshall(lists, W);
    else
    {
        Gref.resize(N, N);
        for (int i = 0; i < N; ++i)
            Gref.row(i) = dijkstra_ref(lists, W, i).transpose();
    }
    bool asym = false, disconnected = false;
    for (int i = 0; i < N && !(asym && disconnected); ++i)
        for (int j = 0; j < N; ++j)
        {
            if (Gref(i, j) == INF)
                disconnected = true;
            else if (Gref(j, i) != INF && std::fabs(Gref(i, j) - Gref(j, i)) > 1e-9 * Gref(i, j))
                asym = true;
        }

    // landmark subset
    std::string lk = c.s("lm", "random");
    Landmarks lm;
    if (lk == "all")
        lm = idx;
    else if (lk == "first")
        for (int i = 0; i < std::max(1, N / 3); ++i)
            lm.push_back(i);
    else if (lk == "last")
        for (int i = N - std::max(1, N / 3); i < N; ++i)
            lm.push_back(i);
    else if (lk == "single")
        lm.push_back(N - 1 - g.below(std::max(1, N / 2)));
    else
    {
        lm = idx;
        g.shuffle(lm);
        lm.resize(std::max(1, g.range(1, N)));
    }
    bool lm_offdiag = false;
    for (size_t q = 0; q < lm.size(); ++q)
        if (lm[q] != (int)q)
            lm_offdiag = true;

    std::vector<int> threads;
    {
        std::istringstream ss(c.s("threads", "1,2,3,8,16"));
        std::string t;
        while (std::getline(ss, t, ','))
            threads.push_back(std::atoi(t.c_str()));
    }
    Mat G1, L1;
    long compared = 0;
    for (size_t ti = 0; ti < threads.size(); ++ti)
    {
        omp_set_num_threads(threads[ti]);
        Mat G = compute_shortest_distances_matrix(idx.begin(), idx.end(), nb, cdw);
        Mat L = compute_shortest_distances_matrix(idx.begin(), idx.end(), lm, nb, cdw);
        if (ti == 0)
        {
            G1 = G;
            L1 = L;
            if (G.rows() != N || G.cols() != N || L.rows() != (int)lm.size() || L.cols() != N)
            {
                r.violation(sf("geo:%s:shape", BACKEND), "wrong result shape");
                return;
            }
            for (int i = 0; i < N; ++i)
            {
                if (G(i, i) != 0)
                {
                    r.violation(sf("geo:%s:diagonal", BACKEND), sf("G(%d,%d)=%g", i, i, G(i, i)));
                    return;
                }
                for (int j = 0; j < N; ++j)
                {
                    ++compared;
                    double a = G(i, j), b = Gref(i, j);
                    if (b == INF)
                    {
                        if (a != std::numeric_limits<double>::max())
                        {
                            r.violation(sf("geo:%s:unreachable-not-sentinel", BACKEND),
                                        sf("G(%d,%d)=%g for an unreachable pair", i, j, a));
                            return;
                        }
                        continue;
                    }
                    if (std::fabs(a - b) > 1e-12 * std::max(1.0, b))
                    {
                        r.violation(sf("geo:%s:not-shortest-path", BACKEND),
                                    sf("G(%d,%d)=%.17g, shortest path %.17g (N=%d k=%d)", i, j, a, b, N, k));
                        return;
                    }
                    if (metric && a < W(i, j) * (1 - 1e-12))
                    {
                        r.violation(sf("geo:%s:below-direct-distance", BACKEND), sf("G(%d,%d)=%g < d=%g", i, j, a, W(i, j)));
                        return;
                    }
                }
            }
            for (size_t q = 0; q < lm.size(); ++q)
                for (int j = 0; j < N; ++j)
                {
                    ++compared;
                    if (L(q, j) != G(lm[q], j))
                    {
                        r.violation(sf("geo:%s:landmark-row-differs", BACKEND),
                                    sf("landmark row %zu (sample %d), column %d: %.17g vs full-matrix %.17g", q, lm[q], j, L(q, j),
                                       G(lm[q], j)));
                        return;
                    }
                }
        }
        else
        {
            if (hash_bits(G) != hash_bits(G1) || hash_bits(L) != hash_bits(L1))
            {
                r.violation(sf("geo:%s:thread-count-dependent", BACKEND),
                            sf("result with %d threads is not bitwise equal to the one with %d", threads[ti], threads[0]));
                return;
            }
        }
    }
    omp_set_num_threads(1);
    r.str["hashG"] = sf("%016llx", (unsigned long long)hash_bits(G1));
    r.str["hashL"] = sf("%016llx", (unsigned long long)hash_bits(L1));
    r.str["backend"] = BACKEND;
    r.num["entries"] = (double)compared;
    r.num["thread_counts"] = (double)threads.size();
    r.nontrivial = N > k + 1;
    r.tags.push_back(sf("%s:%s", BACKEND, graph.c_str()));
    if (asym)
        r.tags.push_back("asymmetric-geodesics");
    if (disconnected)
        r.tags.push_back("disconnected");
    if (lm_offdiag)
        r.tags.push_back("landmarks[k]!=k");
}

void run_isomap(const Case& c, Result& r)
{
    Mat X = make_data(c);
    int N = (int)X.cols(), k = (int)c.i("k", 5), td = (int)c.i("td", 2);
    MatrixCallbacks cb(X);
    std::vector<int> idx = iota_indices(N);
    CbD cd{&cb};
    PlainDistance<It, CbD> pd(cd);
    std::srand(11);
    NeighborsMethod nm = nm_by_name(c.s("nm", "brute"));
    Neighbors nb = find_neighbors(nm, idx.begin(), idx.end(), pd, k, true);
    std::vector<std::vector<int>> lists(nb.begin(), nb.end());
    Mat W = cb.distance_matrix();
    Mat G = floyd_warshall(lists, W);
    if (!G.allFinite())
    {
        r.inconclusive.push_back("reference graph disconnected");
        return;
    }
    Mat S = G.array().square().matrix();
    S = (0.5 * (S + S.transpose())).eval();
    bool asym = (G - G.transpose()).cwiseAbs().maxCoeff() > 1e-9 * G.maxCoeff();
    Mat B = -0.5 * double_center(S);
    Spectrum sp = sym_eig_desc(B);
    std::srand(11);
    Outcome o = guarded_embed(idx, cb, params_from_case(c));
    if (o.what != "ok")
    {
        r.violation("isomap:throws", "Isomap threw " + o.what + ": " + o.message);
        return;
    }
    const Mat& Y = o.out.embedding;
    if (Y.rows() != N || Y.cols() != td)
    {
        r.violation("isomap:shape", sf("%ldx%ld", (long)Y.rows(), (long)Y.cols()));
        return;
    }
    if (sp.vals(td - 1) <= 1e-9 * sp.vals(0))
    {
        r.inconclusive.push_back("a retained reference eigenvalue is not positive");
        return;
    }
    SubspaceVerdict v = check_gram_topd(Y, sp, td);
    r.maxnum("gram_err", v.err);
    r.num["gap"] = v.gap;
    if (!v.conclusive)
        r.inconclusive.push_back("eigen-gap below 1e-6");
    else if (!v.ok)
        r.violation("isomap:not-classical-mds-of-geodesics",
                    sf("||YY^T - B_td||/||B_td|| = %.3g > %.3g (gap %.3g, N=%d k=%d td=%d, asymmetric geodesics=%d)", v.err, v.tol, v.gap, N,
                       k, td, (int)asym));
    // column means must vanish (centred solution)
    double cm = Y.colwise().mean().cwiseAbs().maxCoeff() / std::max(1e-300, Y.cwiseAbs().maxCoeff());
    r.maxnum("colmean", cm);
    if (v.conclusive && cm > 1e-8 / std::max(v.gap, 1e-6))
        r.violation("isomap:not-centred", sf("column mean / max entry = %.3g", cm));
    r.nontrivial = true;
    r.tags.push_back(std::string("isomap:") + (asym ? "asym" : "sym"));
}

void run_case(const Case& c, Result& r)
{
    if (c.s("mode") == "isomap")
        run_isomap(c, r);
    else
        run_geo(c, r);
}
} // namespace

int main(int argc, char** argv)
{
    return driver_main(argc, argv, run_case, vh::install_tick);
}
