#!/usr/bin/env python3
"""C20 monitor: drives the rebuilt `tapkee` executable (env CLI_BIN) and the in-process library reference (env CLIREF_BIN)
and compares what the executable writes with what the library returns. Speaks the driver protocol of vlib/runner.py:
   cli_driver.py <casefile> <outfile>
"""
import json
import math
import os
import random
import re
import shutil
import subprocess
import sys
import tempfile

CLI = os.environ["CLI_BIN"]
REF = os.environ["CLIREF_BIN"]

NAME2REF = {
    "locally_linear_embedding": "klle", "lle": "klle", "local_tangent_space_alignment": "kltsa", "ltsa": "kltsa",
    "hessian_locally_linear_embedding": "hlle", "hlle": "hlle", "multidimensional_scaling": "mds", "mds": "mds",
    "landmark_multidimensional_scaling": "lmds", "l-mds": "lmds", "isomap": "isomap", "landmark_isomap": "lisomap",
    "l-isomap": "lisomap", "diffusion_map": "dm", "dm": "dm", "kernel_pca": "kpca", "kpca": "kpca", "pca": "pca",
    "random_projection": "rp", "ra": "rp", "laplacian_eigenmaps": "le", "la": "le", "locality_preserving_projections": "lpp",
    "lpp": "lpp", "neighborhood_preserving_embedding": "npe", "npe": "npe", "linear_local_tangent_space_alignment": "lltsa",
    "lltsa": "lltsa", "stochastic_proximity_embedding": "spe", "spe": "spe", "passthru": "passthru", "factor_analysis": "fa",
    "fa": "fa", "t-stochastic_proximity_embedding": "tsne", "t-sne": "tsne", "manifold_sculpting": "ms",
}
LIBNAME = {
    "klle": "Kernel Locally Linear Embedding (KLLE)", "npe": "Neighborhood Preserving Embedding (NPE)",
    "kltsa": "Kernel Local Tangent Space Alignment (KLTSA)", "lltsa": "Linear Local Tangent Space Alignment (LLTSA)",
    "hlle": "Hessian Locally Linear Embedding (HLLE)", "le": "Laplacian Eigenmaps", "lpp": "Locality Preserving Projections (LPP)",
    "dm": "Diffusion Map", "isomap": "Isomap", "lisomap": "Landmark Isomap", "mds": "Multidimensional Scaling (MDS)",
    "lmds": "Landmark Multidimensional Scaling (LMDS)", "spe": "Stochastic Proximity Embedding (SPE)",
    "kpca": "Kernel Principal Component Analysis (KPCA)", "pca": "Principal Component Analysis (PCA)", "rp": "Random Projection",
    "fa": "Factor Analysis", "tsne": "t-distributed Stochastic Neighbor Embedding (t-SNE)", "ms": "Manifold Sculpting",
    "passthru": "Pass-through",
}
DETERMINISTIC = {"klle", "kltsa", "hlle", "mds", "isomap", "dm", "kpca", "pca", "le", "lpp", "npe", "lltsa", "passthru"}
PROJECTING = {"pca", "rp", "npe", "lltsa", "lpp"}
# CLI option -> (case key of the reference driver)
OPT2KEY = {"--target-dimension": "td", "--num-neighbors": "k", "--gaussian-width": "width", "--timesteps": "timesteps",
           "--eigenshift": "nshift", "--landmark-ratio": "ratio", "--spe-tolerance": "spetol", "--spe-num-updates": "speupd",
           "--max-iters": "maxiter", "--fa-epsilon": "faeps", "--sne-perplexity": "perp", "--sne-theta": "theta",
           "--squishing-rate": "squish", "--neighbors-method": "nm", "--eigen-method": "em"}


def parse_case(line):
    d = {}
    for tok in line.split():
        if "=" in tok:
            k, v = tok.split("=", 1)
            d[k] = v
        else:
            d[tok] = "1"
    return d


class Res:
    def __init__(self):
        self.viol = []
        self.inconclusive = []
        self.num = {}
        self.str = {}
        self.tags = []
        self.nontrivial = False

    def violation(self, key, detail):
        if len(self.viol) < 20:
            self.viol.append({"key": key, "detail": detail[:600]})

    def json(self):
        return json.dumps({"viol": self.viol, "inconclusive": self.inconclusive, "nontrivial": self.nontrivial, "num": self.num,
                           "str": self.str, "tags": self.tags})


def gen_data(c):
    rnd = random.Random(int(c.get("dseed", 1)))
    N, D = int(c["N"]), int(c["D"])
    kind = c.get("data", "gauss")
    rows = []
    for i in range(N):
        if kind == "swiss":
            t = 1.5 * math.pi * (1 + 2 * rnd.random())
            row = [t * math.cos(t), 10 * rnd.random(), t * math.sin(t)] + [0.01 * rnd.gauss(0, 1) for _ in range(max(0, D - 3))]
            row = [x + 0.01 * rnd.gauss(0, 1) for x in row[:D]]
        else:
            row = [rnd.gauss(0, 1) * (1 + j % 3) + (j - 1) for j in range(D)]
        rows.append(row)
    return rows


def fmt(x):
    return "%.17g" % x


def lex(x, style):
    """The same value in another lexical form that a well-formed file may use."""
    t = fmt(x)
    if style == "plus" and x > 0:
        t = "+" + t
    elif style == "space":
        t = " " + t
    elif style == "padded":
        t = t.rjust(26)
    elif style == "exp":
        t = "%.17e" % x
    return t


def write_input(path, rows, delim, transposed, crlf=False, trailing=False, style="plain", final_newline=True):
    mat = rows if not transposed else [list(col) for col in zip(*rows)]
    eol = "\r\n" if crlf else "\n"
    with open(path, "w", newline="") as f:
        for i, r in enumerate(mat):
            last = i + 1 == len(mat)
            f.write(delim.join(lex(x, style) for x in r) + (delim if trailing else "") + ("" if (last and not final_newline) else eol))


def run(cmd, timeout=600):
    env = dict(os.environ)
    # single-threaded: executable and reference then perform bitwise the same computation (thread counts are C15's business)
    env["OMP_NUM_THREADS"] = "1"
    try:
        p = subprocess.run(cmd, stdout=subprocess.PIPE, stderr=subprocess.PIPE, timeout=timeout, env=env)
        return p.returncode, p.stdout.decode(errors="replace"), p.stderr.decode(errors="replace")
    except subprocess.TimeoutExpired:
        return -999, "", "TIMEOUT"


def sanitizer_or_signal(rc, err, r, ctx):
    """A CLI process must end with status 0 or 1 and without sanitizer report."""
    if rc == -999:
        r.violation(ctx + ":hang", "the executable did not finish within the watchdog")
        return True
    m = re.search(r"ERROR: AddressSanitizer: (\S+)|runtime error: (.*)|Assertion [`'](.+?)' failed", err)
    if m or rc < 0 or rc not in (0, 1):
        what = (m.group(1) or m.group(2) or m.group(3)) if m else "signal/exit %d" % rc
        what = re.sub(r"0x[0-9a-f]+|\d+", "N", what)[:50].replace(" ", "_")
        frame = "?"
        for line in err.splitlines():
            fm = re.match(r"\s*#\d+ 0x[0-9a-f]+ in (.+?) (/\S+?):(\d+)", line)
            if fm and ("/include/tapkee" in fm.group(2) or "/src/cli" in fm.group(2)):
                frame = re.sub(r"[<(].*", "", fm.group(1)).split("::")[-1]
                break
        r.violation("%s:crash:%s|%s" % (ctx, what, frame), "exit status %d; %s" % (rc, err[-400:]))
        return True
    return False


def read_matrix(path, delim):
    rows = []
    with open(path) as f:
        for line in f:
            line = line.rstrip("\n").rstrip("\r")
            if line == "":
                continue
            rows.append([float(x) for x in line.split(delim)])
    return rows


def read_ref(path):
    rows = []
    with open(path) as f:
        for line in f:
            if line.strip():
                rows.append([float(x) for x in line.split()])
    return rows


def compare(cli, ref, r, key, what):
    if len(cli) != len(ref) or any(len(a) != len(b) for a, b in zip(cli, ref)):
        r.violation(key + ":shape", "%s: %dx%d written, library returns %dx%d" % (what, len(cli), len(cli[0]) if cli else 0, len(ref),
                                                                                   len(ref[0]) if ref else 0))
        return False
    ncol = len(ref[0]) if ref else 0
    if os.environ.get("CLI_ALIGN_SIGNS") == "1" and what == "embedding":
        # a different compiler may pick the other sign of an eigenvector: align per column
        for j in range(ncol):
            if sum(a[j] * b[j] for a, b in zip(cli, ref)) < 0:
                for a in cli:
                    a[j] = -a[j]
    scale = [max([abs(row[j]) for row in ref] + [1e-300]) for j in range(ncol)]
    worst = 0.0
    for a, b in zip(cli, ref):
        for j in range(ncol):
            if not (math.isfinite(a[j]) and math.isfinite(b[j])):
                if not ((math.isnan(a[j]) and math.isnan(b[j])) or a[j] == b[j]):
                    worst = float("inf")
                continue
            err = abs(a[j] - b[j])
            tol = 1e-5 * abs(b[j]) + 1e-9 * scale[j]
            if err > tol:
                worst = max(worst, err / scale[j])
    r.num["max_rel_dev"] = max(r.num.get("max_rel_dev", 0.0), worst if math.isfinite(worst) else 1e300)
    if worst > 0:
        r.violation(key + ":values", "%s differs from the library result by %.3g of the column scale (6 digits are printed)" % (what, worst))
        return False
    return True


def opts_from_case(c):
    """CLI options and the matching reference keys from the case (keys starting with o_)."""
    cli, ref = [], {}
    for k, v in c.items():
        if not k.startswith("o_"):
            continue
        opt = "--" + k[2:].replace("_", "-")
        cli += [opt, v]
        ref[OPT2KEY[opt]] = v
    return cli, ref


def roundtrip(c, r, tmp):
    method = c["method"]
    short = NAME2REF[method]
    rows = gen_data(c)
    N, D = len(rows), len(rows[0])
    delim = {"comma": ",", "space": " ", "semi": ";", "tab": "\t", "pipe": "|", "colon": ":"}[c.get("delim", "comma")]
    tin, tout = c.get("tin") == "1", c.get("tout") == "1"
    inp = os.path.join(tmp, "in.txt")
    style = c.get("lexical", "plain")
    if delim in (" ", "\t") and style in ("space", "padded"):
        style = "plain"  # leading blanks would be ambiguous with a blank delimiter
    write_input(inp, rows, delim, tin, crlf=c.get("crlf") == "1", trailing=c.get("trailing") == "1", style=style,
                final_newline=c.get("nofinalnl") != "1")
    out = os.path.join(tmp, "out.txt")
    cmd = [CLI, "-i", inp, "-o", out, "--method", method]
    if delim != ",":
        cmd += ["--delimiter", delim]
    if tin:
        cmd.append("--transpose-input")
    if tout:
        cmd.append("--transpose-output")
    o, refopts = opts_from_case(c)
    cmd += o
    if c.get("precompute") == "1":
        cmd.append("--precompute")
    proj = c.get("proj", "0")
    pm, pv = os.path.join(tmp, "pmat.txt"), os.path.join(tmp, "pmean.txt")
    if proj in ("1", "2"):
        cmd += ["--output-projection-matrix-file", pm]
    if proj in ("1", "3"):
        cmd += ["--output-projection-mean-file", pv]
    rc, so, se = run(cmd)
    ctx = "roundtrip:%s" % short
    if sanitizer_or_signal(rc, se, r, ctx + (":precompute" if c.get("precompute") == "1" else "")):
        return
    # library reference
    refin = os.path.join(tmp, "ref_in.txt")
    with open(refin, "w") as f:
        for row in rows:
            f.write(" ".join(fmt(x) for x in row) + "\n")
    prefix = os.path.join(tmp, "ref")
    refargs = ["method=" + short] + ["%s=%s" % kv for kv in refopts.items()]
    rrc, rso, rse = run([REF, refin, prefix] + refargs)
    if rrc != 0 or not os.path.exists(prefix + ".status"):
        r.inconclusive.append("reference driver failed: rc %s %s" % (rrc, rse[-200:]))
        return
    status = open(prefix + ".status").read().splitlines()[0]
    r.tags.append("%s:%s" % (short, status))
    if status != "ok":
        # the library rejects the request: the executable must not report success
        if rc == 0:
            r.violation(ctx + ":exit-0-although-library-throws", "library throws %s but the executable exited 0" % status)
        r.nontrivial = True
        return
    if rc != 0:
        r.violation(ctx + ":nonzero-exit-on-valid-request", "exit status %d on a well-formed request the library accepts; stderr: %s" % (rc, se[-300:]))
        return
    try:
        cli_out = read_matrix(out, delim)
    except Exception as e:
        r.violation(ctx + ":unparsable-output", "output file cannot be parsed with the requested delimiter: %s" % e)
        return
    if tout:
        cli_out = [list(col) for col in zip(*cli_out)] if cli_out else []
    ref_emb = read_ref(prefix + ".emb")
    if short in DETERMINISTIC:
        compare(cli_out, ref_emb, r, ctx + (":precompute" if c.get("precompute") == "1" else "") + (":tin" if tin else "") + (":tout" if tout else "") +
                (":lexical-" + style if style != "plain" else "") + (":no-final-newline" if c.get("nofinalnl") == "1" else ""),
                "embedding")
    else:
        td = int(refopts.get("td", 2))
        if len(cli_out) != N or any(len(row) != td for row in cli_out):
            r.violation(ctx + ":shape", "random method: output is not %d lines of %d values" % (N, td))
    # projection files: written iff both were requested (and the method projects)
    if proj != "0":
        both = proj == "1"
        has_m = os.path.exists(pm) and os.path.getsize(pm) > 0
        has_v = os.path.exists(pv) and os.path.getsize(pv) > 0
        expect = both and short in PROJECTING
        if has_m != expect or has_v != expect:
            r.violation(ctx + ":projection-files", "projection matrix/mean files present=%s/%s, expected %s (both requested: %s, projecting method: %s)" % (
                has_m, has_v, expect, both, short in PROJECTING))
        elif expect and short in DETERMINISTIC:
            compare(read_matrix(pm, delim), read_ref(prefix + ".pmat"), r, ctx + ":projection-matrix", "projection matrix")
            compare(read_matrix(pv, delim), read_ref(prefix + ".pmean"), r, ctx + ":projection-mean", "projection mean")
    r.nontrivial = True


def parse_echo(stderr):
    d = {}
    for line in stderr.splitlines():
        m = re.match(r"\[debug\] Parameter (.+?) = \[(.*)\]$", line.strip())
        if m:
            d[m.group(1)] = m.group(2)
    return d


def help_defaults():
    rc, so, se = run([CLI, "--help"])
    text = re.sub(r"\s+", " ", so)
    d = {}
    for m in re.finditer(r"--([a-z-]+)(?: arg)? (.*?)(?= (?:-[a-z], )?--[a-z-]+(?: arg)? |$)", text):
        dm = re.search(r"\(default: ([^)]*)\)", m.group(2))
        if dm:
            d[m.group(1)] = dm.group(1).strip()
    return d


def numeq(a, b):
    try:
        fa, fb = float(a), float(b)
        return abs(fa - fb) <= 1e-5 * max(abs(fa), abs(fb)) + 1e-300
    except ValueError:
        return a == b


def wiring(c, r, tmp):
    """--debug echo: every option must arrive in the library keyword its help text names, with its value."""
    rows = gen_data(c)
    inp = os.path.join(tmp, "in.txt")
    write_input(inp, rows, ",", False)
    out = os.path.join(tmp, "out.txt")
    rnd = random.Random(int(c.get("wseed", 1)))
    table = [
        ("--target-dimension", "target dimension", ["1", "3"], "td"),
        ("--num-neighbors", "number of neighbors", ["4", "7"], "num-neighbors"),
        ("--gaussian-width", "the width of the gaussian kernel", ["2.5", "0.125"], "gw"),  # help lists the first alias
        ("--timesteps", "diffusion map timesteps", ["2", "5"], "timesteps"),
        ("--eigenshift", "diagonal shift of nullspace", ["0.25", "1e-06"], "eigenshift"),
        ("--landmark-ratio", "ratio of landmark points", ["0.5", "0.75"], "landmark-ratio"),
        ("--spe-tolerance", "SPE tolerance", ["0.125", "0.001"], "spe-tolerance"),
        ("--spe-num-updates", "SPE number of updates", ["3", "40"], "spe-num-updates"),
        ("--max-iters", "maximal iteration", ["7", "123"], "max-iters"),
        ("--fa-epsilon", "epsilon of FA", ["0.5", "0.001"], "fa-epsilon"),
        ("--sne-perplexity", "SNE perplexity", ["2", "4.5"], "sne-perplexity"),
        ("--sne-theta", "SNE theta", ["0.25", "0"], "sne-theta"),
        ("--squishing-rate", "squishing rate", ["0.5", "0.75"], "squishing-rate"),
        ("--neighbors-method", "nearest neighbors method", ["brute", "vptree"], "nm"),
        ("--eigen-method", "eigendecomposition method", ["randomized", "dense"], "em"),
    ]
    libnames = {"brute": "Brute-force", "vptree": "Vantage point tree", "covertree": "Cover tree", "randomized": "Randomized", "dense": "Dense"}
    defaults = help_defaults()
    chosen = {}
    cmd = [CLI, "-i", inp, "-o", out, "--method", "passthru", "--debug"]
    for opt, kw, values, helpname in table:
        u = rnd.random()
        if u < 0.4:
            chosen[kw] = (None, defaults.get(helpname), opt)
        else:
            v = rnd.choice(values)
            chosen[kw] = (v, v, opt)
            cmd += [opt, v]
    spe_local = rnd.random() < 0.5
    if spe_local:
        cmd.append("--spe-local")
    mname = rnd.choice(sorted(NAME2REF))
    # the method keyword is echoed too: use passthru-compatible probing by a second run below
    rc, so, se = run(cmd)
    if sanitizer_or_signal(rc, se, r, "wiring"):
        return
    if rc != 0:
        r.violation("wiring:nonzero-exit", "exit %d with valid options: %s" % (rc, se[-300:]))
        return
    echo = parse_echo(se)
    if not echo:
        r.violation("wiring:no-parameter-echo", "--debug printed no parameter echo")
        return
    for kw, (given, expect, opt) in chosen.items():
        if expect is None:
            continue
        got = echo.get(kw)
        exp = libnames.get(expect, expect)
        r.num["options_checked"] = r.num.get("options_checked", 0) + 1
        if got is None:
            r.violation("wiring:%s:not-echoed" % opt, "library keyword '%s' missing from the echo" % kw)
        elif not numeq(got, exp):
            r.violation("wiring:%s" % opt, "%s %s: library keyword '%s' is [%s], expected [%s]" % (
                opt, given if given is not None else "(absent, help default)", kw, got, exp))
    got = echo.get("SPE global strategy")
    r.num["options_checked"] = r.num.get("options_checked", 0) + 1
    if got != ("0" if spe_local else "1"):
        r.violation("wiring:--spe-local", "--spe-local %s: 'SPE global strategy' is [%s] (the help text: local strategy, default is global)" % (
            "given" if spe_local else "absent", got))
    # method names and aliases (one per case): echo only, with a request that is rejected early (no_data is not possible; use td check)
    cmd2 = [CLI, "-i", inp, "-o", out, "--method", mname, "--debug", "--target-dimension", "1000000"]
    rc2, so2, se2 = run(cmd2)
    if not sanitizer_or_signal(rc2, se2, r, "wiring:method"):
        e2 = parse_echo(se2)
        want = LIBNAME[NAME2REF[mname]]
        r.num["options_checked"] = r.num.get("options_checked", 0) + 1
        if e2.get("dimension reduction method") != want:
            r.violation("wiring:--method", "--method %s selects [%s], expected [%s]" % (mname, e2.get("dimension reduction method"), want))
    r.tags.append("wiring")
    r.nontrivial = True


def exits(c, r, tmp):
    rows = gen_data(c)
    inp = os.path.join(tmp, "in.txt")
    write_input(inp, rows, ",", False)
    out = os.path.join(tmp, "out.txt")
    base = [CLI, "-i", inp, "-o", out]
    bad = {
        "unknown-method": ["--method", "no_such_method"],
        "misspelt-method": ["--method", "isomapp"],
        "unknown-neighbors-method": ["--method", "isomap", "--neighbors-method", "kdtree"],
        "unknown-eigen-method": ["--method", "pca", "--eigen-method", "lanczos"],
        "td=0": ["--method", "pca", "--target-dimension", "0"],
        "td=-3": ["--method", "pca", "--target-dimension", "-3"],
        "k=2": ["--method", "isomap", "--num-neighbors", "2"],
        "k=0": ["--method", "lle", "--num-neighbors", "0"],
        "negative-width": ["--method", "la", "--gaussian-width", "-1.5"],
        "negative-timesteps": ["--method", "dm", "--timesteps", "-2"],
    }
    good = {
        "pca-default": ["--method", "pca"],
        "k=3": ["--method", "isomap", "--num-neighbors", "3"],
        "td=1": ["--method", "mds", "--target-dimension", "1"],
        "width-small": ["--method", "la", "--gaussian-width", "5"],
        "timesteps=1": ["--method", "dm", "--timesteps", "1"],
    }
    which = c.get("which")
    table = dict(("bad:" + k, v) for k, v in bad.items())
    table.update(("good:" + k, v) for k, v in good.items())
    args = table[which]
    rc, so, se = run(base + args)
    if sanitizer_or_signal(rc, se, r, "exit:" + which):
        return
    if which.startswith("bad:") and rc == 0:
        r.violation("exit:%s:exit-0" % which, "exit status 0 for an invalid invocation (%s)" % " ".join(args))
    if which.startswith("good:"):
        if rc != 0:
            r.violation("exit:%s:nonzero" % which, "exit status %d for a valid invocation: %s" % (rc, se[-300:]))
        else:
            try:
                m = read_matrix(out, ",")
                if len(m) != len(rows) or len(set(len(x) for x in m)) != 1:
                    r.violation("exit:%s:malformed-output" % which, "output is not one line per sample")
            except Exception as e:
                r.violation("exit:%s:malformed-output" % which, str(e))
    r.tags.append(which)
    r.nontrivial = True


def malformed(c, r, tmp):
    rows = gen_data(c)
    inp = os.path.join(tmp, "in.txt")
    out = os.path.join(tmp, "out.txt")
    kind = c["which"]
    lines = [",".join(fmt(x) for x in row) for row in rows]
    expect_nonzero = False
    if kind == "ragged-short":
        lines[len(lines) // 2] = ",".join(lines[len(lines) // 2].split(",")[:-1])
        expect_nonzero = True
    elif kind == "ragged-long":
        lines[1] += ",1.5"
        expect_nonzero = True
    elif kind == "ragged-last":
        lines[-1] = lines[-1].split(",")[0]
        expect_nonzero = True
    elif kind == "ragged-compensating":
        # one row loses its last value and another gains one: the number of values still equals rows x columns of line 1
        rnd = random.Random(int(c.get("dseed", 1)) * 7 + 5)
        i, j = rnd.sample(range(1, len(lines)), 2)
        moved = lines[i].split(",")[-1]
        lines[i] = ",".join(lines[i].split(",")[:-1])
        lines[j] += "," + moved
        expect_nonzero = True
    elif kind == "ragged-random":
        # every row but the first draws its own length around the true one; totals may or may not agree
        rnd = random.Random(int(c.get("dseed", 1)) * 11 + 3)
        ncol = len(lines[0].split(","))
        changed = False
        for i in range(1, len(lines)):
            n = max(1, ncol + rnd.choice([-1, 0, 0, 1]))
            parts = lines[i].split(",")
            parts = (parts + ["0.25"] * n)[:n]
            changed = changed or n != ncol
            lines[i] = ",".join(parts)
        if not changed:
            lines[-1] += ",0.25"
        expect_nonzero = True
    elif kind == "ragged-junk-token":
        parts = lines[2].split(",")
        parts[0] = "abc"
        lines[2] = ",".join(parts)
        expect_nonzero = True  # the token is dropped, the row becomes shorter than the others
    elif kind == "empty-file":
        lines = []
    elif kind == "blank-lines":
        lines = lines[:2] + ["", ""] + lines[2:] + [""]
    elif kind == "no-final-newline":
        pass
    elif kind == "whitespace-padding":
        lines = [" , ".join(l.split(",")) for l in lines]
    elif kind == "single-sample":
        lines = lines[:1]
    elif kind == "single-column":
        lines = [l.split(",")[0] for l in lines]
    elif kind == "missing-input-file":
        inp = os.path.join(tmp, "does_not_exist.txt")
    if kind != "missing-input-file":
        with open(inp, "w") as f:
            f.write("\n".join(lines) + ("" if kind == "no-final-newline" else "\n"))
    wellformed = kind in ("blank-lines", "no-final-newline", "whitespace-padding", "single-column")
    method = "passthru" if wellformed else c.get("method", "pca")
    rc, so, se = run([CLI, "-i", inp, "-o", out, "--method", method, "--target-dimension", "1"])
    if sanitizer_or_signal(rc, se, r, "malformed:" + kind):
        return
    if wellformed and rc == 0:
        # passthru must write the matrix that was read: one line per sample, the same values
        expect = rows if kind != "single-column" else [[row[0]] for row in rows]
        try:
            got = read_matrix(out, ",")
            compare(got, expect, r, "malformed:%s:passthru" % kind, "pass-through output")
        except Exception as e:
            r.violation("malformed:%s:unparsable-output" % kind, str(e))
    if expect_nonzero and rc == 0:
        r.violation("malformed:%s:exit-0" % kind, "rows of unequal length were accepted with exit status 0")
    if kind in ("blank-lines", "no-final-newline", "whitespace-padding") and rc != 0:
        r.violation("malformed:%s:rejected" % kind, "a well-formed matrix was rejected: %s" % se[-300:])
    r.tags.append("malformed:" + kind)
    r.nontrivial = True


def main():
    casefile, outfile = sys.argv[1], sys.argv[2]
    with open(casefile) as f:
        lines = [l for l in f.read().splitlines() if l.strip() and not l.startswith("#")]
    out = open(outfile, "a")
    for line in lines:
        c = parse_case(line)
        out.write("BEGIN %s\n" % c["id"])
        out.flush()
        r = Res()
        tmp = tempfile.mkdtemp(prefix="cli_", dir=os.environ.get("CLI_TMP", "/tmp"))
        try:
            kind = c["kind"]
            if kind == "roundtrip":
                roundtrip(c, r, tmp)
            elif kind == "wiring":
                wiring(c, r, tmp)
            elif kind == "exit":
                exits(c, r, tmp)
            else:
                malformed(c, r, tmp)
        except Exception as e:  # harness problem: report, do not hide
            import traceback
            r.violation("harness|cli-driver-exception", traceback.format_exc()[-500:])
        finally:
            shutil.rmtree(tmp, ignore_errors=True)
        out.write("RES %s %s\n" % (c["id"], r.json()))
        out.flush()
    out.close()


if __name__ == "__main__":
    main()
