// C12: metamorphic pairs through the public API (order, rigid motion, translation, scale, call history).
// C19: SPE / Random Projection / Factor Analysis over many random streams.
#include "common/callbacks.hpp"
#include "common/refs.hpp"
#include <omp.h>

using namespace vh;

namespace
{
struct Run
{
    Mat X;
    MatrixCallbacks* cb = nullptr;
    std::vector<int> idx;
    Outcome o;
    ~Run()
    {
        delete cb;
    }
};

void do_embed(Run& run, const Mat& X, const Case& c, bool reseed = true)
{
    int N = (int)X.cols();
    run.idx = iota_indices(N);
    if (c.i("plabel", 0))
    {
        // permuted labels: the sample at position i is labelled perm[i] and stored in column perm[i] (positions != values)
        Rng g((uint64_t)c.i("dseed", 1) * 131 + 9);
        g.shuffle(run.idx);
        run.X.resize(X.rows(), N);
        for (int i = 0; i < N; ++i)
            run.X.col(run.idx[i]) = X.col(i);
    }
    else
        run.X = X;
    delete run.cb;
    run.cb = new MatrixCallbacks(run.X);
    configure_callbacks(*run.cb, c);
    if (reseed)
    {
        std::srand((unsigned)c.i("srand", 1));
        tapkee::verif::shuffle_seed((unsigned)c.i("shuffle", 1));
    }
    run.o = guarded_embed(run.idx, *run.cb, params_from_case(c));
}

// relative difference of the pairwise-distance matrices of two embeddings (rows already matched)
double dist_dev(const Mat& Y1, const Mat& Y2, double factor = 1.0)
{
    Mat D1 = pairwise_dist(Y1) * factor, D2 = pairwise_dist(Y2);
    double s = std::max(std::max(D1.maxCoeff(), D2.maxCoeff()), 1e-300);
    return (D1 - D2).cwiseAbs().maxCoeff() / s;
}

// ------------------------------------------------------------------------------------------------ C12
// mode=emit: the plain call of a case, written to a file (used for the fresh-process reference of the history leg)
void run_emit(const Case& c, Result& r)
{
    Mat X = make_data(c);
    Run base;
    do_embed(base, X, c);
    FILE* f = fopen(c.s("emit").c_str(), "wb");
    if (!f)
        return;
    long ok = base.o.what == "ok" ? 1 : 0, rows = base.o.out.embedding.rows(), cols = base.o.out.embedding.cols();
    fwrite(&ok, sizeof ok, 1, f);
    fwrite(&rows, sizeof rows, 1, f);
    fwrite(&cols, sizeof cols, 1, f);
    Mat Y = base.o.out.embedding;
    if (ok)
        fwrite(Y.data(), sizeof(double), (size_t)Y.size(), f);
    fclose(f);
    r.nontrivial = false;
}

// The same call in a process of its own (this executable re-run on a one-case file): no earlier call has happened there, so
// write-once state (function-local statics, lazily filled caches) is in its initial condition. Returns false if it cannot be had.
bool fresh_process_embedding(const Case& c, Mat& Y, std::string& what)
{
    char base[] = "/tmp/vh_fresh_XXXXXX";
    int fd = mkstemp(base);
    if (fd < 0)
        return false;
    close(fd);
    std::string cases = std::string(base) + ".cases", out = std::string(base) + ".out", bin = std::string(base) + ".bin";
    {
        std::ofstream cf(cases);
        for (auto& kv : c.kv)
            if (kv.first != "mode" && kv.first != "emit" && kv.first != "timeout" && kv.first != "id")
                cf << kv.first << "=" << kv.second << " ";
        cf << "mode=emit emit=" << bin << " id=fresh timeout=250\n";
    }
    char exe[4096];
    ssize_t n = readlink("/proc/self/exe", exe, sizeof exe - 1);
    bool got = false;
    if (n > 0)
    {
        exe[n] = 0;
        std::string cmd = std::string("'") + exe + "' '" + cases + "' '" + out + "' >/dev/null 2>&1";
        int rc = std::system(cmd.c_str());
        (void)rc;
        FILE* f = fopen(bin.c_str(), "rb");
        if (f)
        {
            long ok = 0, rows = 0, cols = 0;
            if (fread(&ok, sizeof ok, 1, f) == 1 && fread(&rows, sizeof rows, 1, f) == 1 && fread(&cols, sizeof cols, 1, f) == 1)
            {
                what = ok ? "ok" : "threw";
                got = true;
                if (ok && rows >= 0 && cols >= 0 && rows * cols < (1L << 26))
                {
                    Y.resize(rows, cols);
                    got = fread(Y.data(), sizeof(double), (size_t)(rows * cols), f) == (size_t)(rows * cols);
                }
            }
            fclose(f);
        }
    }
    unlink(base);
    unlink(cases.c_str());
    unlink(out.c_str());
    unlink(bin.c_str());
    return got;
}

// the two preceding calls of the history leg that resemble the call under test
void related_history(const Case& c, const Mat& X, Result& r)
{
    // the first has the same data but other parameters, the second the same method, size and parameters but other data
    // (what a value kept from the first call of a kind, or a cache keyed by size / method / address, would confuse)
    Case cp = c;
    cp.kv["td"] = sf("%ld", c.i("td", 2) == 1 ? 2 : 1);
    cp.kv["k"] = sf("%ld", c.i("k", 6) + 1);
    cp.kv["width"] = "7.5";
    cp.kv["timesteps"] = sf("%ld", c.i("timesteps", 3) + 1);
    Run same_data;
    do_embed(same_data, X, cp, false);
    Case cs = c;
    cs.kv["dseed"] = sf("%ld", c.i("dseed", 1) + 1);
    Run same_size;
    do_embed(same_size, make_data(cs), cs, false);
    r.addnum("history_calls", 2);
}

void run_meta(const Case& c, Result& r)
{
    Mat X = make_data(c);
    int N = (int)X.cols(), D = (int)X.rows();
    std::string m = c.s("method"), tr = c.s("transform");
    Rng g((uint64_t)c.i("tseed", 3) * 7 + 1);
    // history leg: the related calls come before the first call under test as well (plus whatever earlier cases of this
    // process have called), the unrelated ones between the two calls; both are compared with a fresh process
    if (tr == "hist")
        related_history(c, X, r);
    Run base;
    do_embed(base, X, c);
    if (base.o.what != "ok")
    {
        r.inconclusive.push_back("base call threw " + base.o.what);
        return;
    }
    const Mat& Y1 = base.o.out.embedding;
    if (!Y1.allFinite())
    {
        r.inconclusive.push_back("base embedding not finite");
        return;
    }
    // empirical conditioning: relative change of the output under a generic relative input perturbation of 1e-9
    double spread = 0;
    {
        Vec mu = X.rowwise().mean();
        spread = std::max(1e-300, (X.colwise() - mu).cwiseAbs().maxCoeff());
    }
    double amp;
    {
        Mat Xp = X;
        Rng pg((uint64_t)c.i("tseed", 3) + 99);
        for (int i = 0; i < Xp.size(); ++i)
            Xp.data()[i] += 1e-9 * spread * pg.gauss();
        Run pert;
        do_embed(pert, Xp, c);
        if (pert.o.what != "ok" || !pert.o.out.embedding.allFinite())
        {
            r.inconclusive.push_back("perturbed call failed");
            return;
        }
        amp = dist_dev(Y1, pert.o.out.embedding) / 1e-9;
    }
    r.num["amplification"] = amp;
    // noise floor: the response to a perturbation of a few ulps. Some outputs carry rounding noise far above amp * 1e-16
    // (e.g. Diffusion Map divides by eigenvector entries of order 1e-7: an absolute eigenvector error of 1e-16 is a relative
    // error of 1e-9 there, whatever the size of the perturbation), which a linear amplification estimate cannot see.
    double floor_dev = 0;
    {
        Mat Xp = X;
        Rng pg((uint64_t)c.i("tseed", 3) + 199);
        for (int i = 0; i < Xp.size(); ++i)
            Xp.data()[i] += 4.4e-16 * spread * pg.gauss();
        Run pert;
        do_embed(pert, Xp, c);
        if (pert.o.what == "ok" && pert.o.out.embedding.allFinite())
            floor_dev = dist_dev(Y1, pert.o.out.embedding);
        else
            floor_dev = 1;
    }
    r.num["noise_floor"] = floor_dev;
    if (amp > 1e5)
    {
        // a relative input change of 1e-9 already moves the output by more than 1e-4: the case sits on a discontinuity
        // (degenerate eigenvalues, numerically disconnected graph); pairs are not comparable
        r.inconclusive.push_back(sf("ill-conditioned case (amplification %.3g)", amp));
        return;
    }
    // transformed input
    Mat X2 = X;
    std::vector<int> perm(N);
    for (int i = 0; i < N; ++i)
        perm[i] = i;
    double factor = 1.0;
    double delta = 2.3e-16; // relative size of the rounding perturbation the transformation introduces
    bool history = false;
    if (tr == "perm")
    {
        if (c.i("reverse", 0))
            std::reverse(perm.begin(), perm.end());
        else
            g.shuffle(perm);
        for (int j = 0; j < N; ++j)
            X2.col(j) = X.col(perm[j]); // new sample j is old sample perm[j]
    }
    else if (tr == "rot")
    {
        X2 = random_orthogonal(D, g) * X;
        delta *= 4 * D;
    }
    else if (tr == "trans")
    {
        double t = c.d("shift", 10.0) * spread;
        Vec v(D);
        for (int i = 0; i < D; ++i)
            v(i) = t * g.gauss();
        X2 = X.colwise() + v;
        double ratio = std::max(1.0, v.cwiseAbs().maxCoeff() / spread);
        delta *= ratio * ratio * 4; // Gram entries of translated data cancel by (|t|/spread)^2
    }
    else if (tr == "scale")
    {
        factor = c.d("factor", 3.7);
        X2 = factor * X;
        delta *= 4;
    }
    else if (tr == "hist")
    {
        history = true;
        // 1-6 other embed calls first (other methods, parameters, sizes; some of them throw)
        int n = 1 + g.below(6);
        static const char* others[] = {"pca", "mds", "klle", "le", "isomap", "dm", "spe", "rp", "lmds", "kltsa", "hlle", "fa", "passthru", "lpp"};
        related_history(c, X, r);
        for (int q = 0; q < n; ++q)
        {
            Case co;
            co.kv["method"] = others[g.below(14)];
            co.kv["data"] = g.uni() < 0.5 ? "gauss" : "swiss";
            co.kv["N"] = sf("%d", 5 + g.below(60));
            co.kv["D"] = "3";
            co.kv["dseed"] = sf("%d", g.below(100000));
            co.kv["td"] = sf("%d", 1 + g.below(3));
            co.kv["k"] = sf("%d", 2 + g.below(9)); // 2 is invalid: throws
            co.kv["maxiter"] = "20";
            co.kv["nm"] = g.uni() < 0.5 ? "vptree" : "covertree";
            co.kv["em"] = g.uni() < 0.3 ? "randomized" : "dense";
            co.kv["width"] = g.uni() < 0.2 ? "-1" : "2.0"; // -1 invalid: throws
            co.kv["ratio"] = "0.6";
            Mat Xo = make_data(co);
            Run other;
            do_embed(other, Xo, co, false);
            r.addnum("history_calls", 1);
            if (other.o.what != "ok")
                r.addnum("history_calls_that_threw", 1);
        }
    }
    Run second;
    do_embed(second, X2, c, !history);
    if (second.o.what != "ok")
    {
        r.violation(m + ":" + tr + ":second-call-throws", "transformed/repeated call threw " + second.o.what + ": " + second.o.message);
        return;
    }
    const Mat& Y2raw = second.o.out.embedding;
    if (Y2raw.rows() != Y1.rows() || Y2raw.cols() != Y1.cols())
    {
        r.violation(m + ":" + tr + ":shape-differs", "shape of the second result differs");
        return;
    }
    if (!Y2raw.allFinite())
    {
        r.violation(m + ":" + tr + ":nonfinite", "second result not finite while the first is");
        return;
    }
    // undo the permutation: row j of Y2 describes old sample perm[j]
    Mat Y2(Y1.rows(), Y1.cols());
    for (int j = 0; j < N; ++j)
        Y2.row(perm[j]) = Y2raw.row(j);
    if (m == "passthru" && (tr == "rot" || tr == "trans" || tr == "scale"))
    {
        // PassThru returns the features: distances are invariant under rigid motions and scale with c
    }
    double dev = dist_dev(Y1, Y2, factor);
    r.maxnum("dev", dev);
    double tol = std::max(std::max(1e-9, amp * delta * 1000), 30 * floor_dev);
    r.num["tol"] = tol;
    if (tol > 1e-3)
    {
        r.inconclusive.push_back(sf("ill-conditioned case (amplification %.3g)", amp));
        return;
    }
    if (dev > tol)
        r.violation(m + ":" + tr, sf("pairwise distances of the two embeddings differ by %.3g (tolerance %.3g from measured amplification %.3g; N=%d)", dev, tol,
                                     amp, N));
    if (history)
    {
        Mat Yf;
        std::string what;
        if (!fresh_process_embedding(c, Yf, what))
            r.inconclusive.push_back("fresh-process reference could not be obtained");
        else if (what != "ok")
            r.violation(m + ":hist:fresh-process-throws", "the call succeeds after other calls but throws in a process of its own");
        else if (Yf.rows() != Y1.rows() || Yf.cols() != Y1.cols())
            r.violation(m + ":hist:fresh-process-shape", "shape differs from the result of the same call in a process of its own");
        else
        {
            double d1 = dist_dev(Y1, Yf), d2 = dist_dev(Y2, Yf);
            r.maxnum("dev_vs_fresh_process", std::max(d1, d2));
            r.addnum("fresh_process_references", 1);
            if (std::max(d1, d2) > tol)
                r.violation(m + ":hist:differs-from-fresh-process",
                            sf("the result after earlier calls differs from the result of the same call in a process of its own by %.3g (first call) / "
                               "%.3g (repeated call); tolerance %.3g",
                               d1, d2, tol));
        }
    }
    r.nontrivial = true;
    r.tags.push_back(m + ":" + tr);
}

// ------------------------------------------------------------------------------------------------ C19
double scale_optimal_stress(const Mat& Y, const Mat& Dd)
{
    Mat De = pairwise_dist(Y);
    double ee = 0, ed = 0, dd = 0;
    int n = (int)Dd.rows();
    for (int i = 0; i < n; ++i)
        for (int j = i + 1; j < n; ++j)
        {
            ee += De(i, j) * De(i, j);
            ed += De(i, j) * Dd(i, j);
            dd += Dd(i, j) * Dd(i, j);
        }
    if (!(ee > 0))
        return 1.0;
    double s = ed / ee;
    double num = 0;
    for (int i = 0; i < n; ++i)
        for (int j = i + 1; j < n; ++j)
            num += (s * De(i, j) - Dd(i, j)) * (s * De(i, j) - Dd(i, j));
    return num / std::max(dd, 1e-300);
}

void run_spe(const Case& c, Result& r)
{
    Mat X = make_data(c);
    int N = (int)X.cols();
    bool global = c.i("speglobal", 1) != 0;
    int streams = (int)c.i("streams", 8);
    Rng g((uint64_t)c.i("sseed", 1));
    MatrixCallbacks cb0(X);
    Mat Dd = cb0.distance_matrix();
    int bad_streams = 0;
    double worst_stress = 0;
    for (int s = 0; s < streams; ++s)
    {
        Case cs = c;
        cs.kv["srand"] = sf("%u", (unsigned)g.next() % 1000000007u);
        cs.kv["shuffle"] = sf("%u", (unsigned)g.next() % 1000000007u);
        Run run;
        do_embed(run, X, cs);
        if (run.o.what != "ok")
        {
            r.violation("spe:throws", run.o.what + ": " + run.o.message);
            return;
        }
        const Mat& Y = run.o.out.embedding;
        if (!Y.allFinite())
        {
            r.violation(global ? "spe:global:nonfinite" : "spe:local:nonfinite",
                        sf("non-finite coordinates (stream %d, N=%d, maxiter=%ld, updates=%ld)", s, N, c.i("maxiter", 0), c.i("speupd", 100)));
            return;
        }
        r.addnum("streams_run", 1);
        if (global)
        {
            double st = scale_optimal_stress(Y, Dd);
            r.maxnum("global_stress", st);
            if (st > 1e-3)
            {
                ++bad_streams;
                worst_stress = std::max(worst_stress, st);
            }
        }
        else
        {
            // neighbour-pair stress on the k nearest neighbours (brute force reference lists)
            int k = (int)c.i("k", 5);
            double num = 0, den = 0;
            for (int i = 0; i < N; ++i)
            {
                std::vector<std::pair<double, int>> d;
                for (int j = 0; j < N; ++j)
                    if (j != i)
                        d.push_back({Dd(i, j), j});
                std::partial_sort(d.begin(), d.begin() + k, d.end());
                for (int q = 0; q < k; ++q)
                {
                    double de = (Y.row(i) - Y.row(d[q].second)).norm();
                    num += (de - d[q].first) * (de - d[q].first);
                    den += d[q].first * d[q].first;
                }
            }
            double st = num / std::max(den, 1e-300);
            r.maxnum("local_stress", st);
            r.maxnum("local_max_coordinate", Y.cwiseAbs().maxCoeff());
            if (c.i("enough", 1) && st > 0.1)
            {
                r.violation("spe:local:stress", sf("neighbour-pair stress %.3g > 0.1 (stream %d, N=%d, maxiter=%ld, updates=%ld)", st, s, N, c.i("maxiter", 0),
                                                   c.i("speupd", 100)));
                return;
            }
        }
    }
    if (bad_streams > 0)
    {
        // a minority of streams stuck with a few misplaced points is the algorithm's known local-minimum behaviour (see known
        // findings); anything worse - most streams failing or a large stress - is reported under the plain key
        bool local_minimum = worst_stress <= 0.05 && 2 * bad_streams <= streams;
        r.violation(local_minimum ? "spe:global:stress:local-minimum" : "spe:global:stress",
                    sf("scale-optimal normalised stress up to %.3g > 1e-3 in %d of %d random streams on data isometrically embeddable in td dims (N=%d)",
                       worst_stress, bad_streams, streams, N));
    }
    r.num["bad_streams"] = bad_streams;
    r.nontrivial = true;
    r.tags.push_back(global ? "spe:global" : "spe:local");
}

void run_rp(const Case& c, Result& r)
{
    Mat X = make_data(c);
    int N = (int)X.cols(), D = (int)X.rows(), td = (int)c.i("td", 2);
    int streams = (int)c.i("streams", 30);
    Rng g((uint64_t)c.i("sseed", 1));
    Vec mu = X.rowwise().mean();
    Mat Xc = X.colwise() - mu;
    double sum = 0, sum2 = 0;
    long n = 0;
    Vec rowsum = Vec::Zero(D), colsum = Vec::Zero(td), rowsq = Vec::Zero(D), colsq = Vec::Zero(td);
    double cross = 0;
    long ncross = 0;
    for (int s = 0; s < streams; ++s)
    {
        Case cs = c;
        cs.kv["srand"] = sf("%u", (unsigned)g.next() % 1000000007u);
        Run run;
        do_embed(run, X, cs);
        if (run.o.what != "ok")
        {
            r.violation("rp:throws", run.o.what);
            return;
        }
        tapkee::MatrixProjectionImplementation* pi =
            dynamic_cast<tapkee::MatrixProjectionImplementation*>(run.o.out.projection.implementation.get());
        if (!pi || pi->proj_mat.rows() != D || pi->proj_mat.cols() != td)
        {
            r.violation("rp:projection-missing-or-misshaped", "no D x td projection matrix");
            return;
        }
        const Mat& P = pi->proj_mat;
        double dev = rel_diff(run.o.out.embedding, Xc.transpose() * P);
        r.maxnum("rp_embedding_dev", dev);
        if (dev > 1e-10)
        {
            r.violation("rp:embedding-not-centred-samples-times-P", sf("deviation %.3g", dev));
            return;
        }
        for (int i = 0; i < D; ++i)
            for (int j = 0; j < td; ++j)
            {
                double v = P(i, j);
                sum += v;
                sum2 += v * v;
                ++n;
                rowsum(i) += v;
                colsum(j) += v;
                rowsq(i) += v * v;
                colsq(j) += v * v;
                if (j + 1 < td)
                {
                    cross += v * P(i, j + 1);
                    ++ncross;
                }
                if (i + 1 < D)
                {
                    cross += v * P(i + 1, j);
                    ++ncross;
                }
            }
        // translation pair under the same seed
        if (s < 3)
        {
            Vec t(D);
            for (int i = 0; i < D; ++i)
                t(i) = 100 * g.gauss();
            Run run2;
            do_embed(run2, Mat(X.colwise() + t), cs);
            if (run2.o.what != "ok")
            {
                r.violation("rp:throws", run2.o.what);
                return;
            }
            double td_ = rel_diff(run2.o.out.embedding, run.o.out.embedding);
            r.maxnum("rp_translation_dev", td_);
            if (td_ > 1e-12 * 1e4)
            {
                r.violation("rp:not-translation-invariant", sf("same seed, translated data: embeddings differ by %.3g", td_));
                return;
            }
        }
    }
    // moments: zero mean, equal variance, no row/column structure, neighbouring entries uncorrelated (6 sigma)
    double mean = sum / n, var = sum2 / n - mean * mean;
    double z = mean / std::sqrt(var / n);
    r.maxnum("rp_mean_z", std::fabs(z));
    r.num["rp_entries"] = (double)n;
    if (!(var > 0))
    {
        r.violation("rp:degenerate-matrix", "projection entries have zero variance");
        return;
    }
    if (std::fabs(z) > 6)
        r.violation("rp:entries-not-zero-mean", sf("z = %.2f over %ld entries", z, n));
    long per_row = (long)streams * td, per_col = (long)streams * D;
    for (int i = 0; i < D; ++i)
    {
        double zi = (rowsum(i) / per_row) / std::sqrt(var / per_row);
        double vi = rowsq(i) / per_row;
        double zv = (vi / var - 1) * std::sqrt(per_row / 2.0);
        r.maxnum("rp_row_z", std::max(std::fabs(zi), std::fabs(zv)));
        if (std::fabs(zi) > 6.5 || std::fabs(zv) > 7.5)
            r.violation("rp:row-structure", sf("row %d: mean z %.2f, variance z %.2f", i, zi, zv));
    }
    for (int j = 0; j < td; ++j)
    {
        double zj = (colsum(j) / per_col) / std::sqrt(var / per_col);
        double vj = colsq(j) / per_col;
        double zv = (vj / var - 1) * std::sqrt(per_col / 2.0);
        r.maxnum("rp_col_z", std::max(std::fabs(zj), std::fabs(zv)));
        if (std::fabs(zj) > 6.5 || std::fabs(zv) > 7.5)
            r.violation("rp:column-structure", sf("column %d: mean z %.2f, variance z %.2f", j, zj, zv));
    }
    if (ncross > 100)
    {
        double zc = (cross / ncross) / (var / std::sqrt((double)ncross));
        r.maxnum("rp_cross_z", std::fabs(zc));
        if (std::fabs(zc) > 6.5)
            r.violation("rp:neighbouring-entries-correlated", sf("z = %.2f", zc));
    }
    r.nontrivial = true;
    r.tags.push_back("rp");
}

void run_fa(const Case& c, Result& r)
{
    Mat X = make_data(c);
    int N = (int)X.cols(), D = (int)X.rows(), td = (int)c.i("td", 2);
    Rng g((uint64_t)c.i("sseed", 1));
    Vec mu = X.rowwise().mean();
    Mat Xc = X.colwise() - mu;
    for (int s = 0; s < (int)c.i("streams", 4); ++s)
    {
        Case cs = c;
        cs.kv["srand"] = sf("%u", (unsigned)g.next() % 1000000007u);
        Run a;
        do_embed(a, X, cs);
        if (a.o.what != "ok")
        {
            r.violation("fa:throws", a.o.what + ": " + a.o.message);
            return;
        }
        const Mat& E = a.o.out.embedding;
        if (E.rows() != N || E.cols() != td)
        {
            r.violation("fa:shape", "wrong shape");
            return;
        }
        if (!E.allFinite())
        {
            r.inconclusive.push_back("non-finite FA output (EM diverged)");
            continue;
        }
        // output lies in the column space of the centred data: E = Xc^T A solvable
        Eigen::ColPivHouseholderQR<Mat> qr(Xc.transpose());
        Mat A = qr.solve(E);
        double res = (Xc.transpose() * A - E).norm() / std::max(1e-300, E.norm());
        r.maxnum("fa_column_space_residual", res);
        if (res > 1e-8)
        {
            r.violation("fa:not-centred-samples-times-a-matrix", sf("least-squares residual %.3g", res));
            return;
        }
        Vec t(D);
        for (int i = 0; i < D; ++i)
            t(i) = c.d("shift", 50.0) * g.gauss();
        Run b;
        do_embed(b, Mat(X.colwise() + t), cs);
        if (b.o.what != "ok")
        {
            r.violation("fa:throws", b.o.what);
            return;
        }
        if (!b.o.out.embedding.allFinite())
        {
            r.violation("fa:translation-changes-finiteness", "translated twin is not finite");
            return;
        }
        double dev = rel_diff(b.o.out.embedding, E);
        r.maxnum("fa_translation_dev", dev);
        if (dev > 1e-6)
        {
            r.violation("fa:not-translation-invariant", sf("same seed, translated data: outputs differ by %.3g", dev));
            return;
        }
        r.addnum("streams_run", 1);
    }
    r.nontrivial = true;
    r.tags.push_back("fa");
}

void run_case(const Case& c, Result& r)
{
    std::string mode = c.s("mode");
    if (mode == "meta")
        run_meta(c, r);
    else if (mode == "emit")
        run_emit(c, r);
    else if (mode == "spe")
        run_spe(c, r);
    else if (mode == "rp")
        run_rp(c, r);
    else if (mode == "fa")
        run_fa(c, r);
    else
    {
        fprintf(stderr, "unknown mode\n");
        exit(2);
    }
}
} // namespace

int main(int argc, char** argv)
{
    omp_set_num_threads(1);
    return driver_main(argc, argv, run_case, vh::install_tick);
}
