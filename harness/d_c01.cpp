// C01: every embed call returns N x target_dimension (finite on interior-generic cases) or throws a documented
// tapkee exception; sanitizer / assertion reports, foreign exceptions, hangs and process deaths are violations.
#include "common/callbacks.hpp"

using namespace vh;

namespace
{
void run_case(const Case& c, Result& r)
{
    Mat X = make_data(c);
    int N = (int)X.cols(), D = (int)X.rows();
    MatrixCallbacks cb(X);
    configure_callbacks(cb, c);
    // the samples are labelled 1000, 1001, ...: a callback invoked with a position instead of a label is out of the map
    std::vector<int> idx = iota_indices(N);
    for (int& v : idx)
        v += 1000;
    cb.label_base = 1000;
    std::srand((unsigned)c.i("srand", 1));
    tapkee::verif::shuffle_seed((unsigned)c.i("shuffle", 1));
    CaptureLogger& lg = capture_logger();
    lg.clear();
    std::string method = c.s("method");
    int td = (int)c.i("td", 2);
    Outcome o = guarded_embed(idx, cb, params_from_case(c));
    r.str["outcome"] = o.what;
    if (cb.bad_labels.load() > 0)
        r.violation("callback-invoked-with-a-non-sample", sf("%ld callback invocations with a value that is not one of the supplied samples (a position?)",
                                                             (long)cb.bad_labels.load()));
    r.nontrivial = cb.pairwise_calls() + cb.nf.load() > 0;
    std::string cell = method + ":" + c.s("nm", "-") + ":" + c.s("em", "-");
    r.tags.push_back("cell:" + cell);
    r.tags.push_back("data:" + method + ":" + c.s("data"));
    r.tags.push_back("tdk:" + method + ":" + c.s("tdb", "-") + ":" + c.s("kb", "-"));
    if (o.what != "ok")
    {
        if (!o.documented)
            r.violation("foreign-exception:" + o.what, "embed let " + o.what + " escape: " + o.message);
        return;
    }
    const Mat& Y = o.out.embedding;
    if (method == "passthru")
    {
        if (Y.rows() != N || Y.cols() != D)
            r.violation("shape", sf("PassThru returned %ldx%ld for N=%d D=%d", (long)Y.rows(), (long)Y.cols(), N, D));
        else if ((Y - X.transpose()).cwiseAbs().maxCoeff() != 0)
            r.violation("passthru-altered", "PassThru output differs from the features");
        return;
    }
    if (Y.rows() != N || Y.cols() != td)
    {
        r.violation("shape", sf("returned %ldx%ld for N=%d target_dimension=%d", (long)Y.rows(), (long)Y.cols(), N, td));
        return;
    }
    bool finite = Y.allFinite();
    r.str["finite"] = finite ? "1" : "0";
    if (c.i("generic", 0))
    {
        r.tags.push_back("generic:" + method);
        if (!finite)
        {
            long bad = 0;
            for (int i = 0; i < Y.size(); ++i)
                if (!std::isfinite(Y.data()[i]))
                    ++bad;
            r.violation("nonfinite", sf("%ld of %ld entries are not finite on an interior-generic case (N=%d D=%d td=%d k=%ld)", bad, (long)Y.size(), N,
                                        D, td, c.i("k", 0)));
        }
    }
}
} // namespace

int main(int argc, char** argv)
{
    return driver_main(argc, argv, run_case, vh::install_tick);
}
