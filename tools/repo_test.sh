#!/bin/sh
# Builds the repository's own test suite (guard off) and runs it; non-zero exit on any failure.
set -e
cmake --build /repo/_build > /tmp/repo_build.log 2>&1 || { tail -30 /tmp/repo_build.log; exit 1; }
ctest --test-dir /repo/_build -j8 --timeout 900 > /tmp/repo_ctest.log 2>&1 || { tail -30 /tmp/repo_ctest.log; exit 1; }
tail -3 /tmp/repo_ctest.log
