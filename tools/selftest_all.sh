#!/bin/sh
# Runs every mutant of mutants/ (file name cNN_*.diff -> property CNN) through tools/selftest.py; appends to build/selftest.log
cd /verif
mkdir -p build
for f in mutants/*.diff; do
  id=$(basename $f | cut -c1-3 | tr c C)
  echo "=== $f -> $id" >> build/selftest.log
  python3 tools/selftest.py $f $id >> build/selftest.log 2>&1
done
echo DONE >> build/selftest.log
