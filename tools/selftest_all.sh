#!/bin/sh
# Runs every mutant of mutants/ (file name cNN_*.diff -> property CNN) and every seeded change of seeded/<dir>/patch.diff
# through tools/selftest.py (quick tier against a scratch copy of /repo with the patch applied); log in build/selftest.log,
# seeded results are also written back to seeded/<dir>/meta.json. tools/selftest_table.py turns both into the DESIGN table.
cd /verif
mkdir -p build
: > build/selftest.log
for f in mutants/*.diff; do
  id=$(basename $f | cut -c1-3 | tr c C)
  echo "=== $f -> $id" >> build/selftest.log
  python3 tools/selftest.py $f $id >> build/selftest.log 2>&1
done
for d in seeded/*/; do
  name=$(basename $d)
  id=$(echo $name | cut -c1-3)
  echo "=== seeded/$name -> $id" >> build/selftest.log
  python3 tools/intake_seeded.py $id --name $name --recheck-only >> build/selftest.log 2>&1
done
echo DONE >> build/selftest.log
