#!/usr/bin/env python3
"""mkmutant.py <name> <relative file> <occurrence (1-based, 0 = must be unique)> <<< 'OLD\n=====\nNEW'
Writes mutants/<name>.diff replacing the given occurrence of OLD by NEW in /repo/<file>."""
import difflib, sys
name, rel, occ = sys.argv[1], sys.argv[2], int(sys.argv[3])
old, new = sys.stdin.read().split("\n=====\n")
new = new.rstrip("\n") if not old.endswith("\n") else new
src = open("/repo/" + rel).read()
n = src.count(old)
assert n >= 1, "OLD not found"
if occ == 0:
    assert n == 1, "OLD occurs %d times" % n
    occ = 1
pos = -1
for i in range(occ):
    pos = src.index(old, pos + 1)
dst = src[:pos] + new + src[pos + len(old):]
diff = difflib.unified_diff(src.splitlines(True), dst.splitlines(True), "a/" + rel, "b/" + rel)
open("/verif/mutants/%s.diff" % name, "w").write("".join(diff))
print("wrote mutants/%s.diff" % name)
