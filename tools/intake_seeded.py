#!/usr/bin/env python3
"""Takes over one independently produced seeded change from its scratch worktree /tmp/wt_cNN/mutation/ into
/verif/seeded/CNN/, re-verifies it there (unit tests pass with the change; the demonstration fails with it and passes
without it), runs the quick check of the property against it, writes meta.json and removes the worktree.

usage: intake_seeded.py CNN [--keep-worktree] [--demo-flags "..."]
"""
import json, os, shutil, subprocess, sys, time

VERIF = os.path.dirname(os.path.dirname(os.path.abspath(__file__)))


def sh(cmd, cwd=None, timeout=3600):
    p = subprocess.run(cmd, shell=True, cwd=cwd, stdout=subprocess.PIPE, stderr=subprocess.STDOUT, timeout=timeout)
    return p.returncode, p.stdout.decode(errors="replace")


def main():
    pid = sys.argv[1].upper()
    keep = "--keep-worktree" in sys.argv
    name = sys.argv[sys.argv.index("--name") + 1] if "--name" in sys.argv else pid  # directory under seeded/
    wt_override = sys.argv[sys.argv.index("--wt") + 1] if "--wt" in sys.argv else None
    if "--recheck-only" in sys.argv:
        # re-run our check against the stored patch and refresh the check fields of meta.json
        dst = os.path.join(VERIF, "seeded", name)
        meta = json.load(open(os.path.join(dst, "meta.json")))
        rc, out = sh("%s %s/tools/selftest.py %s/patch.diff %s" % (sys.executable, VERIF, dst, pid), cwd=VERIF, timeout=7200)
        first = out.strip().splitlines()[0] if out.strip() else "no output"
        meta.setdefault("check_history", []).append({"time": time.strftime("%Y-%m-%d %H:%M:%S"), "result": meta.get("check_result")})
        meta["check_result"] = first
        meta["caught_by_quick_check"] = out.startswith("CAUGHT")
        json.dump(meta, open(os.path.join(dst, "meta.json"), "w"), indent=1)
        print(pid, first[:300])
        return
    extra = ""
    if "--demo-flags" in sys.argv:
        extra = sys.argv[sys.argv.index("--demo-flags") + 1]
    wt = wt_override or "/tmp/wt_%s" % pid.lower()
    mut = os.path.join(wt, "mutation")
    dst = os.path.join(VERIF, "seeded", name)
    os.makedirs(dst, exist_ok=True)
    for f in os.listdir(mut):
        p = os.path.join(mut, f)
        if os.path.isfile(p) and os.path.getsize(p) < 400000 and not os.access(p, os.X_OK) and f.split(".")[-1] in ("diff", "cpp", "md", "sh", "hpp", "txt", "csv", "py"):
            shutil.copy(p, os.path.join(dst, f))
    meta = {"property": pid, "intake_time": time.strftime("%Y-%m-%d %H:%M:%S"), "commands": []}
    # 1. the worktree's diff is the patch
    rc, out = sh("git -C %s diff -- include src | diff -q - %s/patch.diff" % (wt, mut))
    meta["patch_matches_worktree"] = rc == 0
    # 2. unit tests with the change
    rc, out = sh("cmake --build %s/_build -j8 2>&1 | tail -2; ctest --test-dir %s/_build -j4 2>&1 | tail -4" % (wt, wt))
    meta["unit_tests_with_change"] = "100% tests passed" in out
    meta["commands"].append({"cmd": "cmake --build _build && ctest (change applied)", "tail": out[-300:]})
    # 3. demo with / without
    demo_src = "demo.cpp" if os.path.exists(os.path.join(mut, "demo.cpp")) else None
    build = ("g++ -std=gnu++23 -O1 -fopenmp -I%s/include -I%s/src/cli -isystem /root/miniconda/include -isystem /usr/include/eigen3 "
             "-DFMT_HEADER_ONLY=1 -DTAPKEE_USE_LGPL_COVERTREE %s %s/demo.cpp -o %s/demo_intake") % (wt, wt, extra, mut, mut)
    if os.path.exists(os.path.join(mut, "demo.sh")):
        build = None  # the author's own script builds and runs the demonstration
    results = {}
    for phase in ("with", "without"):
        if phase == "without":
            rc, out = sh("git -C %s apply -R %s/patch.diff" % (wt, mut))
            if rc != 0:
                results["without"] = "cannot reverse patch: " + out[-200:]
                break
            if os.path.exists(os.path.join(wt, "bin", "tapkee")) and "src/cli" in open(os.path.join(mut, "patch.diff")).read():
                sh("cmake --build %s/_build -j8 --target tapkee" % wt)
        if build:
            rc, out = sh(build)
            if rc != 0:
                results[phase] = "demo build failed: " + out[-400:]
                continue
            rc, out = sh("%s/demo_intake" % mut, cwd=mut, timeout=1800)
        else:
            rc, out = sh("bash %s/demo.sh" % mut, cwd=mut, timeout=3600)
        results[phase] = {"exit": rc, "tail": out[-400:]}
    sh("git -C %s apply %s/patch.diff" % (wt, mut))  # leave the worktree as it was found
    meta["demo"] = results
    ok_demo = isinstance(results.get("with"), dict) and isinstance(results.get("without"), dict) and results["with"]["exit"] != 0 and results["without"]["exit"] == 0
    meta["demo_fails_with_and_passes_without"] = ok_demo
    # 4. our check against the patch
    rc, out = sh("%s %s/tools/selftest.py %s/patch.diff %s" % (sys.executable, VERIF, dst, pid), cwd=VERIF, timeout=7200)
    meta["check_result"] = out.strip().splitlines()[0] if out.strip() else "no output"
    meta["caught_by_quick_check"] = out.startswith("CAUGHT")
    readme = os.path.join(dst, "README.md")
    meta["needs_to_manifest"] = "see README.md (written by the independent author of the change)"
    json.dump(meta, open(os.path.join(dst, "meta.json"), "w"), indent=1)
    print(json.dumps({k: meta[k] for k in ("property", "patch_matches_worktree", "unit_tests_with_change", "demo_fails_with_and_passes_without",
                                           "caught_by_quick_check", "check_result")}, indent=1))
    if not keep:
        sh("git -C /repo worktree remove --force %s" % wt)


if __name__ == "__main__":
    main()
