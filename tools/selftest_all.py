#!/usr/bin/env python3
"""Runs every own mutant (mutants/cNN_*.diff -> property CNN) and every seeded change (seeded/<dir>/patch.diff) through
tools/selftest.py (quick tier against a scratch copy of /repo with the patch applied), JOBS patches at a time. Results go to
build/selftest.log (same format as before) and, for seeded changes, back into seeded/<dir>/meta.json.
usage: selftest_all.py [JOBS] [only-substring]"""
import glob, json, os, subprocess, sys, time
from concurrent.futures import ThreadPoolExecutor
VERIF = os.path.dirname(os.path.dirname(os.path.abspath(__file__)))


def run(job):
    kind, path, pid = job
    t0 = time.time()
    p = subprocess.run([sys.executable, os.path.join(VERIF, "tools", "selftest.py"), path, pid], stdout=subprocess.PIPE, stderr=subprocess.STDOUT, cwd=VERIF)
    return job, p.stdout.decode(errors="replace"), time.time() - t0


def main():
    jobs_n = int(sys.argv[1]) if len(sys.argv) > 1 else 3
    only = sys.argv[2] if len(sys.argv) > 2 else ""
    jobs = []
    for f in sorted(glob.glob(os.path.join(VERIF, "mutants", "*.diff"))):
        jobs.append(("mutant", os.path.relpath(f, VERIF), os.path.basename(f)[:3].upper()))
    for d in sorted(glob.glob(os.path.join(VERIF, "seeded", "*", "patch.diff"))):
        name = os.path.basename(os.path.dirname(d))
        jobs.append(("seeded", os.path.relpath(d, VERIF), name[:3]))
    jobs = [j for j in jobs if only in j[1]]
    log = open(os.path.join(VERIF, "build", "selftest.log"), "w")
    with ThreadPoolExecutor(max_workers=jobs_n) as ex:
        for job, out, dt in ex.map(run, jobs):
            kind, path, pid = job
            label = path if kind == "mutant" else "seeded/" + os.path.basename(os.path.dirname(path))
            log.write("=== %s -> %s (%.0fs)\n%s\n" % (label, pid, dt, out))
            log.flush()
            if kind == "seeded":
                mp = os.path.join(VERIF, os.path.dirname(path), "meta.json")
                meta = json.load(open(mp))
                first = out.strip().splitlines()[0] if out.strip() else "no output"
                if first != meta.get("check_result"):
                    meta.setdefault("check_history", []).append({"time": time.strftime("%Y-%m-%d %H:%M:%S"), "result": meta.get("check_result")})
                meta["check_result"] = first
                meta["caught_by_quick_check"] = out.startswith("CAUGHT")
                json.dump(meta, open(mp, "w"), indent=1)
    log.write("DONE\n")
    log.close()


if __name__ == "__main__":
    main()
