#!/bin/sh
# thorough tier of every check (or of the ids given), one after the other; summary lines in build/thorough.log
cd /verif
ids="$@"
[ -z "$ids" ] && ids="C16 C14 C13 C20 C18 C19 C07 C06 C05 C09 C10 C11 C12 C08 C03 C02 C17 C04 C15 C01"
for id in $ids; do
  t0=$(date +%s)
  out=$(VERIF_EVIDENCE=/verif/build/thorough_evidence python3 check.py $id --tier thorough 2>&1)
  rc=$?
  echo "$id rc=$rc $(( $(date +%s) - t0 ))s $(echo "$out" | tail -1)" >> build/thorough.log
  echo "$out" | grep "^VIOLATION\|HARNESS" | head -8 >> build/thorough.log
done
echo THOROUGH-DONE >> build/thorough.log
