#!/usr/bin/env python3
"""Resolves the commit hash of every 'fixed' entry of known_findings.json from its commit subject
(hashes change when /repo history is rewritten) and refreshes the 'fixed: ...' line."""
import json, subprocess, sys
p = "/verif/known_findings.json"
k = json.load(open(p))
log = subprocess.run(["git", "-C", "/repo", "log", "--format=%h\t%s"], stdout=subprocess.PIPE).stdout.decode().splitlines()
bysub = {l.split("\t", 1)[1]: l.split("\t", 1)[0] for l in log}
ok = True
for f in k["findings"]:
    if f.get("status") != "fixed":
        continue
    sub = f.get("subject")
    hits = [h for s, h in bysub.items() if sub and s.startswith(sub)]
    if len(hits) != 1:
        print("UNRESOLVED", f.get("property"), sub)
        ok = False
        continue
    f["commit"] = hits[0]
    f["line"] = "fixed: property=%s %s %s" % (f["property"], hits[0], f["input"])
json.dump(k, open(p, "w"), indent=1)
print("synced" if ok else "some unresolved")
sys.exit(0 if ok else 1)
