#!/usr/bin/env python3
"""Self-test of the monitors: applies one patch to a scratch copy of /repo (outside /repo and /verif), runs the quick
check of the named property against the copy and expects exit code 1 with a VIOLATION line; removes the copy.

usage: selftest.py <patch.diff> <ID> [<ID> ...]      (patch paths are relative to the repository root)
"""
import os, shutil, subprocess, sys, tempfile
VERIF = os.path.dirname(os.path.dirname(os.path.abspath(__file__)))


def main():
    patch = os.path.abspath(sys.argv[1])
    ids = sys.argv[2:]
    scratch = tempfile.mkdtemp(prefix="tapkee_mut_", dir="/tmp")
    try:
        for sub in ("include", "src"):
            shutil.copytree(os.path.join("/repo", sub), os.path.join(scratch, sub))
        r = subprocess.run(["patch", "-p1", "-s", "-d", scratch, "-i", patch], stdout=subprocess.PIPE, stderr=subprocess.STDOUT)
        if r.returncode != 0:
            print("PATCH-FAILED", r.stdout.decode()[-500:])
            return 2
        ok = True
        for pid in ids:
            env = dict(os.environ, VERIF_REPO=scratch)
            p = subprocess.run([sys.executable, os.path.join(VERIF, "check.py"), pid, "--tier", "quick"], stdout=subprocess.PIPE,
                               stderr=subprocess.STDOUT, env=env, cwd=VERIF)
            out = p.stdout.decode()
            viol = [l for l in out.splitlines() if l.startswith("VIOLATION")]
            caught = p.returncode == 1 and viol
            print("%s %s: exit %d, %d VIOLATION line(s)%s" % ("CAUGHT" if caught else "MISSED", pid, p.returncode, len(viol),
                                                               (" e.g. " + viol[0][:260]) if viol else ""))
            if not caught:
                ok = False
                print(out[-1500:])
        return 0 if ok else 1
    finally:
        shutil.rmtree(scratch, ignore_errors=True)


if __name__ == "__main__":
    sys.exit(main())
