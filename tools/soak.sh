#!/bin/sh
# quick tier of every check for the given seeds; one summary line per run in build/soak.log
cd /verif
for seed in "$@"; do
  for i in 01 02 03 04 05 06 07 08 09 10 11 12 13 14 15 16 17 18 19 20; do
    out=$(VERIF_SEED=$seed VERIF_EVIDENCE=/verif/build/soak_evidence python3 check.py C$i --tier quick 2>&1)
    rc=$?
    echo "seed=$seed C$i rc=$rc $(echo "$out" | tail -1)" >> build/soak.log
    echo "$out" | grep "^VIOLATION\|HARNESS" | head -5 >> build/soak.log
  done
done
echo SOAK-DONE "$@" >> build/soak.log
