#!/usr/bin/env python3
"""Prints the self-test table (markdown) from build/selftest.log (own mutants) and seeded/*/meta.json."""
import glob, json, os, re
VERIF = os.path.dirname(os.path.dirname(os.path.abspath(__file__)))
rows = []
cur = None
for line in open(os.path.join(VERIF, "build", "selftest.log"), errors="replace"):
    m = re.match(r"=== (mutants/\S+) -> (C\d\d)", line)
    if m:
        cur = [m.group(1), m.group(2), "?", ""]
        rows.append(cur)
        continue
    if line.startswith("=== "):
        cur = None
        continue
    m = re.match(r"(CAUGHT|MISSED) (C\d\d): exit (\d+), (\d+) VIOLATION", line)
    if m and cur is not None and cur[2] == "?":
        cur[2] = m.group(1)
        k = re.search(r"key=(\S+)", line)
        cur[3] = k.group(1) if k else ""
print("| own mutant | property | result | first violation key |")
print("|---|---|---|---|")
for r in rows:
    print("| `%s` | %s | %s | `%s` |" % (os.path.basename(r[0]), r[1], r[2].lower(), r[3][:90]))
print()
print("| seeded change | property | tests pass with it | demo fails with / passes without | quick check | first result (before strengthening) |")
print("|---|---|---|---|---|---|")
for p in sorted(glob.glob(os.path.join(VERIF, "seeded", "*", "meta.json"))):
    m = json.load(open(p))
    hist = m.get("check_history", [])
    first = (hist[0]["result"] if hist else m.get("check_result", ""))[:6]
    print("| `seeded/%s` | %s | %s | %s | %s | %s |" % (os.path.basename(os.path.dirname(p)), m["property"], "yes" if m.get("unit_tests_with_change") else "NO",
                                              "yes" if m.get("demo_fails_with_and_passes_without") else "NO",
                                              "caught" if m.get("caught_by_quick_check") else "MISSED", first.lower()))
