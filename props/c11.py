"""C11: landmark methods embed landmarks exactly and triangulate the rest consistently."""
import random
from props._spectral import SPECTRAL, base, finish, generic_coverage

ID = "C11"
LEVEL = "exploration"
TECHNIQUE = "replayable landmark subsets through the seedable shuffle hook; landmark rows compared with public-API MDS on the subset, all rows with an independent evaluation of the triangulation formula, distance reproduction on flat data with spanning landmarks, ratio=1 differential against MDS/Isomap; direct checks of select_landmarks_random; under ASan/UBSan"
LEVEL_TEXT = "Landmark selection is checked for count/distinctness over seeds and ratios incl. 3/N and 1; Landmark MDS outputs are compared with MDS of the same subset and with a reference triangulation; ratio 1 is compared with the non-landmark methods."
LEVEL_NOTE = "Needs hook H1 (seedable shuffle). Column-wise comparisons need simple eigenvalues (gap >= 1e-6); landmark sets that do not affinely span flat data are non-binding."
ASSUMPTIONS = ["the harness learns the landmark subset by calling select_landmarks_random with the same shuffle seed as the embed call"]


def targets(tier):
    return [SPECTRAL]


def stages(tier, seed, bins):
    rnd = random.Random(seed * 1087 + 11)
    thorough = tier == "thorough"
    cases = []
    for i in range(60 if thorough else 12):
        cases.append(base(rnd, mode="lmsel", ctx="selection", N=rnd.choice([3, 4, 6, 7, 10, 33, 100, 300, 1000]), reps=400 if thorough else 150))
    n = 4000 if thorough else 220
    for i in range(n):
        N = rnd.choice([6, 10, 20, 40, 80, 150] + ([300] if thorough else []))
        td = min(rnd.choice([1, 2, 3, 5]), N - 2)
        kind = rnd.choice(["flat", "flat", "gauss", "swiss", "mix"])
        D = max(td, rnd.choice([2, 3, 5, 8]))
        ratio = rnd.choice([3.0 / N, 0.3, 0.5, 0.7, 0.9, 1.0, (td + 2.0) / N])
        ratio = min(1.0, max(3.0 / N, ratio))
        c = base(rnd, mode="lmds", method="lmds", N=N, D=D, td=td, data=kind, ratio=repr(ratio), em="dense")
        if kind == "swiss":
            c["D"] = 3
            c["td"] = min(td, 3)
        if kind == "flat":
            c["q"] = c["td"] if rnd.random() < 0.8 else max(1, c["td"] - 1)
        if rnd.random() < 0.25 and N >= 10:
            c["dupcopies"] = rnd.choice([2, 3])  # exact repeats: a landmark and a non-landmark may coincide (distance exactly 0)
        # the same data measured in another unit (widths / kernel parameters converted with it): every clause is scale free
        if rnd.random() < 0.15:
            c["xscale"] = rnd.choice([1e-12, 1e-9, 1e-6, 1e-3, 1e3, 1e6, 1e9])
        cases.append(c)
    for i in range(600 if thorough else 50):
        m = rnd.choice(["lmds", "lisomap"])
        N = rnd.choice([12, 20, 40, 80])
        td = rnd.choice([1, 2, 3])
        c = base(rnd, mode="ratio1", method=m, N=N, D=rnd.choice([3, 5]), td=td, data=rnd.choice(["gauss", "swiss", "flat"]), em="dense",
                 nm=rnd.choice(["brute", "covertree"]))
        if c["data"] == "swiss":
            c["D"] = 3
        if c["data"] == "flat":
            c["q"] = min(c["D"], max(td, 2))
        if m == "lisomap":
            c["k"] = rnd.choice([N - 1, N - 1, max(4, N // 2)])
        cases.append(c)
    return [dict(name="lmk", exe=bins["spectral"], cases=finish(cases, "k"), timeout=300)]


def coverage(recs, tier):
    sel = sum(int(r.get("num", {}).get("selections", 0)) for st, c, r in recs)
    return generic_coverage(recs, "case = a batch of landmark selections, one Landmark MDS call with a replayable subset, or a ratio=1 pair; non-trivial = comparison with the reference carried out",
                            dict(landmark_selections_checked=sel))
