"""C02: all three neighbour searches return exactly the k nearest other samples."""
import math
import random
from vlib.build import Target

ID = "C02"
LEVEL = "exploration"
TECHNIQUE = "differential oracle: each search method vs an O(N^2) scan through the same callback object, under ASan/UBSan + libstdc++ assertions"
LEVEL_TEXT = ("Every query of every generated (data, metric, k) case is compared, for brute force, VP-tree and cover tree, with the k smallest "
              "of the N-1 reference distances (sorted multisets, so ties are free); list length, self-exclusion and distinctness are checked "
              "structurally. Exploration over seeded data sets rich in ties and duplicates; no claim beyond the cases run.")
LEVEL_NOTE = "Trusts the harness's O(N^2) scan and std::sort; kernel-induced distances are compared on squared values with a cancellation-aware tolerance."
ASSUMPTIONS = ["metrics used: L2, L1, Linf, discrete 0/1, graph shortest-path (all true metrics); kernels: linear, RBF, polynomial (PSD)",
               "VP-tree pivots come from std::rand, seeded per case"]


def targets(tier):
    return [Target("neighbors", "asan", ["d_neighbors.cpp", "embed_api.cpp"])]


def kset(N, rnd):
    ks = {1, 2, 3, 5, int(math.sqrt(N)), N // 2, N - 2, N - 1}
    return sorted(k for k in ks if 1 <= k <= N - 1)


def stages(tier, seed, bins):
    rnd = random.Random(seed * 1009 + 2)
    thorough = tier == "thorough"
    cases = []

    def add(**kw):
        kw["id"] = "n%d" % (len(cases) + 1)
        kw.setdefault("ticks", 50000000)
        cases.append(kw)

    total = 9000 if thorough else 520
    kinds = ["gauss", "lattice", "dup", "clusters", "wide", "collinear", "swiss", "offset", "multiscale"]
    while len(cases) < total:
        kind = rnd.choice(kinds)
        N = rnd.choice([2, 3, 4, 5, 6, 8, 12, 20, 33, 49, 64, 100, 150, 300])
        if thorough and rnd.random() < 0.03:
            N = rnd.choice([1000, 1500, 2000])
        elif rnd.random() < (0.02 if not thorough else 0.0):
            N = 1000
        D = rnd.choice([1, 2, 3, 5, 10, 50]) if kind not in ("swiss",) else 3
        c = dict(mode="knn", data=kind, N=N, D=D, dseed=rnd.randrange(1 << 30), srand=rnd.randrange(1 << 30))
        if kind == "lattice":
            c["ldims"] = rnd.choice([1, 2, 3])
            c["D"] = max(c["D"], c["ldims"]) if c["D"] >= c["ldims"] else c["ldims"]
            if rnd.random() < 0.5:
                c["perm"] = rnd.randrange(1, 1 << 30)
        ks = kset(N, rnd)
        k = rnd.choice(ks)
        if kind == "dup":
            # copy count on both sides of k+1
            c["copies"] = max(1, rnd.choice([k - 1, k, k + 1, k + 2, 2, 3]))
            if rnd.random() < 0.5:
                c["perm"] = rnd.randrange(1, 1 << 30)
        if kind == "multiscale":
            c["decades"] = rnd.choice([6, 10, 12, 14, 30, 100, 300])
        if kind == "clusters":
            c.update(nc=rnd.choice([2, 3, 5]), gap=rnd.choice([2, 10, 1000]), ratio=rnd.choice([1.0, 0.5, 0.2]))
        c["k"] = k
        via = rnd.choice(["dist", "dist", "kernel"])
        c["via"] = via
        if via == "dist":
            c["dist"] = rnd.choice(["l2", "l2", "l1", "linf", "discrete", "graph"])
            if c["dist"] == "graph" and N > 400:
                c["dist"] = "l1"
        else:
            c["kernel"] = rnd.choice(["linear", "rbf", "poly"])
            c["gamma"] = rnd.choice([0.01, 0.5, 2.0])
            if kind in ("wide", "offset", "multiscale"):
                # huge norms make the induced distance sqrt(k_aa - 2k_ab + k_bb) cancel catastrophically;
                # keep those for plain distances, use moderate data for kernels
                c["data"] = "gauss"
        # the same sample set in a very different unit (all distances far below 1e-16, or far above 1e16): nearest neighbours do
        # not depend on the unit; a tolerance that is absolute does. rbf would under/overflow and poly is not scale free: skip.
        if rnd.random() < 0.2 and c.get("kernel") in (None, "linear") and c.get("dist") != "discrete":
            c["xscale"] = rnd.choice(["1e-12", "8.8817841970012523e-16", "8.6736173798840355e-19", "1e-30", "1e30", "1e-6", "1e6"])
        c["timeout"] = 300 if N <= 300 else 1200
        add(**c)
    return [dict(name="knn", exe=bins["neighbors"], cases=cases, timeout=300)]


def coverage(recs, tier):
    q = ties = dups = 0
    cells = {}
    nontriv = set()
    for st, c, r in recs:
        num = r.get("num", {})
        q += int(num.get("queries", 0))
        ties += int(num.get("tie_queries", 0))
        dups += int(num.get("dup_queries", 0))
        for t in r.get("tags", []):
            cells[t] = cells.get(t, 0) + 1
        if r.get("nontrivial"):
            nontriv.add((c["data"], c["N"], c["k"], c.get("dist", c.get("kernel")), c["dseed"]))
    return dict(
        rule="case = (data kind, N, D, k, metric or kernel, seeds); each case queries all N samples with all three methods; "
             "non-trivial = N>k+1 or a tie at the k-th/(k+1)-th distance or >=k coincident samples; distinct = distinct (data,N,k,metric,seed)",
        distinct_nontrivial=len(nontriv), queries_checked=q, queries_with_kth_tie=ties, queries_with_k_or_more_coincident=dups,
        cases_by_cell=cells,
        samples=[" ".join("%s=%s" % kv for kv in c.items()) for st, c, r in recs[::max(1, len(recs) // 6)][:6]],
    )
