"""C05: MDS and Kernel PCA return the optimal rank-d factor of the centred Gram matrix."""
import random
from props._spectral import SPECTRAL, base, finish, generic_coverage

ID = "C05"
LEVEL = "exploration"
TECHNIQUE = "independent spectral reference (Eigen dense eigensolver on -1/2 J D^2 J resp. J K J built from callback values) compared through gap-conditioned, sign/basis-free invariants; under ASan/UBSan"
LEVEL_TEXT = ("Public-API embeddings of MDS / Kernel PCA are checked for: columns being eigenvectors (residual), mutual orthogonality, squared norms equal to the top eigenvalues, "
              "Gram matrix equal to the best rank-td approximation (conditioned on the eigen-gap), exact reproduction of distances on realisable inputs with both eigensolvers, and Isomap(k=N-1) = MDS.")
LEVEL_NOTE = "Trusts Eigen's SelfAdjointEigenSolver on a fully populated symmetric matrix; cases whose retained eigenvalues are not positive or whose gap is < 1e-6 are counted inconclusive, never held."
ASSUMPTIONS = ["randomized solver only claimed on inputs of rank <= target_dimension, as the property states"]


def targets(tier):
    return [SPECTRAL]


def stages(tier, seed, bins):
    rnd = random.Random(seed * 1039 + 5)
    n = 6000 if tier == "thorough" else 330
    cases = []
    for i in range(n):
        m = rnd.choice(["mds", "mds", "kpca"])
        N = rnd.choice([3, 4, 5, 8, 12, 20, 33, 64, 120] + ([200, 300] if tier == "thorough" else []))
        kind = rnd.choice(["flat", "flat", "gauss", "mix", "swiss", "lattice", "clusters"])
        D = rnd.choice([1, 2, 3, 5, 10])
        c = base(rnd, mode="mds", method=m, N=N, D=D, data=kind)
        if kind == "swiss":
            c["D"] = 3
        q = None
        if kind == "flat":
            q = rnd.choice([1, 2, 3, min(D, 10)])
            q = min(q, c["D"])
            c["q"] = q
        if kind == "mix":
            c["q"] = min(c["D"], rnd.choice([1, 2, 3, c["D"]]))
        td = rnd.choice([1, 2, 3, 5, N - 2, N - 1, q or 2])
        td = max(1, min(td, N - 1))
        c["td"] = td
        em = rnd.choice(["dense", "dense", "randomized"])
        if em == "randomized":
            # exact-rank input: rank <= td
            c["data"] = "flat"
            c["q"] = max(1, min(td, c["D"], rnd.choice([td, td, max(1, td - 1)])))
            if rnd.random() < 0.4:
                c["aniso"] = rnd.choice([30, 300, 1000, 3000])  # retained eigenvalues spread over up to seven decades
        c["em"] = em
        if m == "mds":
            c["dist"] = rnd.choice(["l2", "l2", "l2", "l1", "linf", "discrete"])
            if c["dist"] != "l2" and em == "dense" and rnd.random() < 0.5:
                # non-Euclidean dissimilarities have negative eigenvalues: retain some of them
                c["td"] = max(1, min(N - 1, rnd.choice([N - 1, N - 2, (2 * N) // 3])))
            if em == "randomized":
                c["dist"] = "l2"
            if rnd.random() < 0.3 and em == "dense":
                c["isomap"] = 1
                c["nm"] = rnd.choice(["brute", "vptree", "covertree"])
        else:
            c["kernel"] = rnd.choice(["linear", "rbf", "poly"]) if em == "dense" else "linear"
            c["gamma"] = rnd.choice([0.05, 0.5])
        # the same data measured in another unit (widths / kernel parameters converted with it): every clause is scale free
        # (not with the polynomial kernel (x.y + 1)^2: in a tiny unit all its values are 1 + O(1e-12) and centring them cancels
        # twelve digits whatever the implementation does - an ill-conditioned input, not a scale-free one)
        if rnd.random() < 0.15 and c.get("kernel") != "poly":
            xs = rnd.choice([1e-12, 1e-9, 1e-6, 1e-3, 1e3, 1e6, 1e9])
            c["xscale"] = xs
            if "gamma" in c:
                c["gamma"] = repr(c["gamma"] / (xs * xs))
        cases.append(c)
    # sizes beyond any "small problem" switch an implementation may have (size-gated code paths, e.g. `if (N > 1000)`)
    for N in ([1100] if tier != "thorough" else [1001, 1100, 1500, 2000]):
        cases.append(base(rnd, mode="mds", method="mds", N=N, D=5, data="flat", q=3, td=3, em=rnd.choice(["dense", "randomized"]), dist="l2", timeout=1200,
                          ticks=0))
        cases.append(base(rnd, mode="mds", method="kpca", N=N, D=4, data="gauss", td=2, em="dense", kernel=rnd.choice(["linear", "rbf"]), gamma=0.05,
                          timeout=1200, ticks=0))
    return [dict(name="mds", exe=bins["spectral"], cases=finish(cases, "m"), timeout=300)]


def coverage(recs, tier):
    return generic_coverage(recs, "case = one MDS or Kernel PCA call (data kind, N, D, rank, td, metric/kernel, eigensolver) plus optional Isomap(k=N-1) twin; "
                                  "non-trivial = the embedding was compared with the reference spectrum; distinct = distinct parameter tuples")
