"""C03: check_connectivity guarantees a graph on which all geodesics are finite."""
import random
from vlib.build import Target

ID = "C03"
LEVEL = "exploration"
TECHNIQUE = "reference reachability (forward+backward BFS) on the implementation's own neighbour lists, replayed over 20 sample orders per data set, plus end-to-end Isomap/Landmark Isomap under ASan"
LEVEL_TEXT = ("For each generated data set and 20 sample orders the lists returned with check_connectivity=true are checked for strong connectivity, "
              "every raise of k is checked against the graph one doubling step earlier, k_final is compared across orders and against the warning log, "
              "geodesics are checked finite and Isomap / Landmark Isomap are run through the public API. Exploration only.")
LEVEL_NOTE = "Reachability is decided on the lists the implementation itself returns with the check off (tie-breaking cannot cause alarms); only directed (Isomap-type) consumers are claimed."
ASSUMPTIONS = ["'the direction the method follows' is taken as the directed k-NN relation used by Isomap's Dijkstra",
               "samples are pairwise distinct in all generated data sets"]


def targets(tier):
    return [Target("neighbors", "asan", ["d_neighbors.cpp", "embed_api.cpp"])]


def stages(tier, seed, bins):
    rnd = random.Random(seed * 1013 + 3)
    thorough = tier == "thorough"
    cases = []
    total = 3000 if thorough else 240
    while len(cases) < total:
        kind = rnd.choice(["gauss", "clusters", "clusters", "clusters", "chain", "swiss"])
        N = rnd.choice([8, 12, 20, 33, 50, 80, 120] + ([200, 300] if thorough else []))
        c = dict(mode="conn", data=kind, N=N, D=rnd.choice([2, 3, 5]), dseed=rnd.randrange(1 << 30),
                 k=rnd.choice([3, 4, 5, 8]), nmi=rnd.randrange(3), nperm=20, pseed=rnd.randrange(1 << 30))
        if c["k"] >= N:
            continue
        if kind == "clusters":
            c.update(nc=rnd.choice([2, 3, 4, 5]), gap=rnd.choice([2, 5, 20, 1000]), ratio=rnd.choice([1.0, 0.5, 0.2, 0.05]),
                     outliers=rnd.choice([0, 0, 1, 2, 3]))
        if kind == "chain":
            c["grow"] = rnd.choice([1.0, 1.1, 1.3, 2.0])
        if rnd.random() < 0.08:
            # distances spanning more than twelve decades without ties (gaps growing by 1.5 over 70+ samples): the regime in which
            # a tree-based search may switch to another code path (the cover tree gives up beyond 100 scale levels)
            c.update(data="chain", grow=1.5, N=rnd.choice([70, 80, 100, 120]))
        if kind == "swiss":
            c["D"] = 3
        c["id"] = "g%d" % (len(cases) + 1)
        c["timeout"] = 600
        c["ticks"] = 100000000
        cases.append(c)
    return [dict(name="conn", exe=bins["neighbors"], cases=cases, timeout=600)]


def coverage(recs, tier):
    disc = raised = perms = 0
    cells = {}
    sig = set()
    for st, c, r in recs:
        num = r.get("num", {})
        perms += int(num.get("perms", 0))
        if num.get("doublings", 0) > 0:
            raised += 1
        if "weak-not-strong" in r.get("tags", []):
            disc += 1
        for t in r.get("tags", []):
            cells[t] = cells.get(t, 0) + 1
        if r.get("nontrivial"):
            sig.add((c["data"], c["N"], c["k"], c["nmi"], c["dseed"]))
    return dict(
        rule="case = (data set, requested k, neighbour method) replayed under 20 sample orders (identity, reverse, last-first, rotated, 16 random); "
             "non-trivial = the requested-k graph was not strongly connected (k had to be raised) or was weakly-but-not-strongly connected; "
             "distinct = distinct (data kind, N, k, method, data seed)",
        distinct_nontrivial=len(sig), data_sets=len(recs), orders_run=perms, data_sets_where_k_was_raised=raised,
        data_sets_weakly_but_not_strongly_connected=disc, cases_by_cell=cells,
        end_to_end_calls="Isomap and Landmark Isomap on the first 3 orders of every data set",
        samples=[" ".join("%s=%s" % kv for kv in c.items()) for st, c, r in recs[::max(1, len(recs) // 6)][:6]],
    )
