"""C16: Fibonacci heap is a correct indexed min-priority queue under every history."""
import random
from vlib.build import Target

ID = "C16"
LEVEL = "exploration"
ASSUMPTIONS = [
    "ASan red zones around the heap's malloc'ed arrays (nodes, A) detect adjacent out-of-bounds accesses only",
    "white-box walk uses -fno-access-control; no source change to the heap",
    "the exhaustive stage de-duplicates by a complete serialization of the heap object (all pointers, ranks, marks, keys, "
    "min_root, counters); equal serializations are bisimilar, so 'closed' sub-spaces cover histories of every length",
]


def targets(tier):
    return [Target("heap", "asan", ["d_heap.cpp"], extra=("-fno-access-control",))]


def stages(tier, seed, bins):
    rnd = random.Random(seed * 7919 + 16)
    thorough = tier == "thorough"
    cases = []
    n = [0]

    def add(**kw):
        n[0] += 1
        kw["id"] = "h%d" % n[0]
        kw.setdefault("ticks", 200000000)
        cases.append(kw)

    # (i) bounded-exhaustive exploration of the real object
    for cap in (1, 2, 3, 4, 5):
        depth = {1: 30, 2: 30, 3: 12 if thorough else 8, 4: 9 if thorough else 6, 5: 8 if thorough else 6}[cap]
        add(mode="exh", cap=cap, depth=depth, keys=3, maxstates=2000000 if thorough else 300000,
            timeout=3000 if thorough else 600)
    add(mode="exh", cap=3, depth=10 if thorough else 7, keys=2, timeout=3000 if thorough else 600)
    # (ii) random histories
    nrand = 400 if thorough else 60
    for i in range(nrand):
        cap = rnd.choice([1, 2, 3, 5, 8, 13, 16, 31, 32, 33, 64, 100, 127, 128, 255, 256, 1000, 4096, 10000])
        ln = rnd.choice([2000, 10000, 30000]) if not thorough else rnd.choice([10000, 50000, 100000])
        if cap >= 1000:
            ln = max(ln, 30000)
        add(mode="rand", cap=cap, len=ln, seed=rnd.randrange(1 << 30), keys=rnd.choice([0, 0, 3, 10]),
            pI=rnd.choice([0.3, 0.4, 0.5]), pD=rnd.choice([0.2, 0.35, 0.45]), pX=rnd.choice([0.1, 0.2, 0.24]),
            timeout=900)
    # (iii) adversarial thin-tree generator over capacities incl. every 2^m-1 and 2^m
    caps = sorted(set([6, 7, 8, 9, 10, 12, 15, 16, 17, 20, 24, 31, 32, 33, 48, 63, 64, 65, 100, 127, 128, 129,
                       200, 255, 256, 300]))
    reps = 6 if thorough else 2
    for cap in caps:
        for rep in range(reps):
            add(mode="adv", cap=cap, rounds=(20000 if thorough else 3000), seed=rnd.randrange(1 << 30),
                pcut=rnd.choice([0.7, 0.9, 1.0]), prefill=rnd.choice([0.5, 0.7, 0.9]), timeout=1800)
    # (iii') second shape-reading pattern: nodes leave their parents through the cascading cut
    for cap in ([64, 144, 234, 377, 500, 1000, 2000] + ([3000, 5000, 10000] if thorough else [])):
        for rep in range(3 if thorough else 1):
            # every round walks the whole structure: bound the work (rounds x capacity) rather than the rounds alone
            rounds = min(20000 if thorough else 2500, max(1500, 40000000 // cap))
            add(mode="adv", strategy="cascade", cap=cap, rounds=rounds, seed=rnd.randrange(1 << 30),
                pcut=rnd.choice([0.9, 1.0]), deep=rep % 2, timeout=1800, ticks=max(200000000, 200 * rounds * cap))
    # (iv) Dijkstra-shaped histories
    for i in range(120 if thorough else 24):
        add(mode="dij", cap=rnd.choice([5, 10, 30, 64, 127, 200, 500]), k=rnd.choice([2, 3, 5, 8]),
            sources=rnd.choice([4, 8, 16]), intw=rnd.choice([0, 1]), seed=rnd.randrange(1 << 30), timeout=900)
    return [dict(name="heap", exe=bins["heap"], cases=cases, timeout=600)]


def coverage(recs, tier):
    ops = states = trans = 0
    closed = []
    maxrank = {}
    bygen = {}
    sigs = set()
    for st, c, r in recs:
        num = r.get("num", {})
        ops += int(num.get("ops", 0))
        states += int(num.get("states", 0))
        trans += int(num.get("transitions", 0))
        bygen[c["mode"]] = bygen.get(c["mode"], 0) + 1
        if c["mode"] == "exh":
            closed.append(dict(cap=int(c["cap"]), keys=int(c["keys"]), depth=int(num.get("levels", 0)),
                               states=int(num.get("states", 0)), closed=bool(num.get("closed", 0)),
                               truncated=bool(num.get("truncated", 0))))
        if "max_rank" in num:
            cap = int(c["cap"])
            maxrank[cap] = max(maxrank.get(cap, 0), int(num["max_rank"]))
        if r.get("nontrivial"):
            sigs.add((c["mode"], c["cap"], c.get("seed", c.get("depth"))))
    return dict(
        rule="cases = histories produced by four generators (bounded-exhaustive BFS over the real object de-duplicated by full "
             "state serialization; seeded random; shape-reading adversarial cut/extract/refill; Dijkstra-shaped); "
             "every operation is checked against a std::map model and a structural walk; a case is non-trivial when "
             "it executed more than 10 operations / 10 distinct states; distinct = distinct (generator, capacity, seed)",
        distinct_nontrivial=len(sigs),
        operations=ops, exhaustive_states=states, exhaustive_transitions=trans,
        exhaustive_subspaces=closed,
        exhaustive=False,
        histories_by_generator=bygen,
        max_rank_seen_by_capacity={str(k): v for k, v in sorted(maxrank.items())},
        samples=[" ".join("%s=%s" % kv for kv in c.items()) for st, c, r in recs[::max(1, len(recs) // 6)][:6]],
    )

TECHNIQUE = "lock-step std::map reference model + white-box structural invariant walk under ASan/UBSan; bounded-exhaustive BFS over the real object, random, adversarial and Dijkstra-shaped histories"
LEVEL_TEXT = ("Runtime monitoring of the real heap object: every operation of ~3e6 (quick) operations is compared with a sequential model and the "
              "structure is walked for its invariants while ASan watches the heap's arrays. Capacities 1-3 with a 3-key alphabet reach a "
              "fixpoint of the complete-state BFS (every history of any length covered); everything else is sampled histories.")
LEVEL_NOTE = "Trusts ASan red zones, the std::map model and the completeness of the state serialization used for de-duplication; no claim for capacities/histories not generated."
