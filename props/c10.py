"""C10: NPE, LLTSA and LPP solve the full feature-space generalised eigenproblem."""
import random
from props._spectral import SPECTRAL, base, finish, generic_coverage

ID = "C10"
LEVEL = "exploration"
TECHNIQUE = "residual oracle against fully populated A = X M X^T, B = X B' X^T assembled from the real alignment/Laplacian routines, Rayleigh quotients vs a dense generalised reference spectrum, and a reference-free metamorphic pair (random orthogonal rotation of the feature space); under ASan/UBSan"
LEVEL_TEXT = "Each returned projection column must satisfy the full generalised eigen-equation and belong to the td smallest eigenvalues; rotating the features must rotate the projection matrix and leave the embedding unchanged up to column signs."
LEVEL_NOTE = "Tolerances scale with the condition number of B (cases with cond(B) > 1e8 inconclusive); column-wise metamorphic comparison requires simple retained eigenvalues (gap >= 1e-6)."
ASSUMPTIONS = ["X holds the samples as columns, uncentred, as the property states"]


def targets(tier):
    return [SPECTRAL]


def stages(tier, seed, bins):
    rnd = random.Random(seed * 1069 + 10)
    n = 3500 if tier == "thorough" else 230
    cases = []
    for i in range(n):
        m = rnd.choice(["npe", "lltsa", "lpp"])
        D = rnd.choice([2, 3, 5, 8, 15, 30])
        N = rnd.choice([40, 60, 100, 150])
        if N < 2 * D + 10:
            N = 2 * D + 20
        td = max(1, min(D - 1, rnd.choice([1, 2, 3])))
        k = rnd.choice([td + 2, 6, 8, 12, N // 3])
        k = max(3, max(td + 1, min(k, N - 1)))
        c = base(rnd, mode="lin", method=m, N=N, D=D, td=td, k=k, data=rnd.choice(["mix", "mix", "gauss", "swiss"]),
                 offset=rnd.choice([0, 0, 1, 5]), nm=rnd.choice(["brute", "vptree", "covertree"]), em="dense",
                 width=rnd.choice([0.02, 0.1, 0.5, 2.0, 20.0, 500.0]), rotate=1)
        if rnd.random() < 0.2:
            c["xscale"] = rnd.choice([1e-3, 30.0])
        if m == "lpp" and rnd.random() < 0.35:
            # uniform neighbour distances (jittered unit grid) with a width far below them: every heat weight is tiny (1e-18 ...
            # 1e-130) but none underflows; the pencil is invariant to the common factor
            c.update(data="jgrid", D=rnd.choice([3, 5]), td=rnd.choice([1, 2]), k=rnd.choice([4, 6, 8]), width=rnd.choice([0.025, 0.01, 0.0035]))
            c.pop("xscale", None)
        if c["data"] == "swiss":
            c["D"] = 3
            c["td"] = min(c["td"], 2)
        if m == "npe":
            c["kshift"] = rnd.choice([1e-3, 1e-2])
        cases.append(c)
    # sizes beyond any "small problem" switch an implementation may have (size-gated code paths, e.g. `if (N > 1000)`)
    for N in ([1100] if tier != "thorough" else [1001, 1100, 2000]):
        for m in ["npe", "lltsa", "lpp"]:
            c = base(rnd, mode="lin", method=m, N=N, D=5, td=2, k=10, data="mix", offset=1, nm="covertree", em="dense", width=2.0, rotate=1, timeout=1800,
                     ticks=0)
            if m == "npe":
                c["kshift"] = 1e-3
            cases.append(c)
    return [dict(name="lin", exe=bins["spectral"], cases=finish(cases, "x"), timeout=300)]


def coverage(recs, tier):
    return generic_coverage(recs, "case = one NPE/LLTSA/LPP call on correlated features (D 2..30) plus its twin on features rotated by a random orthogonal matrix; non-trivial = residual and rotation pair evaluated")
