"""C09: Laplacian Eigenmaps and Diffusion Map solve their stated spectral problems."""
import random
from props._spectral import SPECTRAL, base, finish, generic_coverage

ID = "C09"
LEVEL = "exploration"
TECHNIQUE = "independent dense reference of the graph Laplacian pencil (both symmetrisations A+A^T and max(A,A^T) accepted) and of the normalised diffusion operator; D-orthonormality, residuals, Rayleigh quotients vs reference eigenvalues, lambda^t scaling; under ASan/UBSan"
LEVEL_TEXT = "Embeddings from the public API are checked against generalised eigenpairs of L y = lambda D y resp. eigenpairs of the diffusion operator built independently from distance callback values, over widths spanning six decades, k, timesteps and target dimensions."
LEVEL_NOTE = "The statement does not fix the symmetrisation; the oracle fails only if neither W=A+A^T nor W=max(A,A^T) fits. Diffusion map cases with a non-isolated trivial eigenvalue or underflowing kernel are inconclusive."
ASSUMPTIONS = ["dense generalised eigensolver"]


def targets(tier):
    return [SPECTRAL]


def stages(tier, seed, bins):
    rnd = random.Random(seed * 1063 + 9)
    n = 4000 if tier == "thorough" else 260
    cases = []
    for i in range(n):
        m = rnd.choice(["le", "dm"])
        N = rnd.choice([10, 16, 30, 60, 120] + ([250] if tier == "thorough" else []))
        kind = rnd.choice(["gauss", "swiss", "clusters", "scurve", "lattice", "jgrid", "dup"])
        D = 3 if kind in ("swiss", "scurve") else rnd.choice([2, 3, 5])
        td = min(rnd.choice([1, 2, 3, 5]), N - 2)
        # width relative to the data scale (coordinates O(1..10)): six decades
        width = rnd.choice([0.01, 0.1, 1.0, 10.0, 100.0, 1000.0, 1e4])
        c = base(rnd, mode=m, method=m, N=N, D=D, td=td, data=kind, width=width, em="dense")
        if kind == "clusters":
            c.update(nc=rnd.choice([2, 3]), gap=rnd.choice([3, 6]), ratio=rnd.choice([1.0, 0.5]))
        if kind == "dup":
            c["copies"] = rnd.choice([2, 3])  # exact duplicates: zero distances carry the full heat weight exp(0) = 1
        if kind == "lattice":
            c["ldims"] = 2
        if kind == "jgrid":
            # uniform neighbour distances: tiny but non-underflowing weights for small widths
            c["width"] = rnd.choice([0.025, 0.01, 0.1, 1.0, 10.0])
            c["D"] = rnd.choice([2, 3])
        if m == "le":
            c["k"] = max(3, min(N - 1, rnd.choice([3, 4, 5, 8, N // 2, N - 1])))
            c["nm"] = rnd.choice(["brute", "vptree", "covertree"])
            if kind == "lattice":
                c["data"] = "gauss"  # ties would make the neighbour lists depend on the search method
        else:
            c["timesteps"] = rnd.choice([1, 2, 3, 5, 10])
        # the same data measured in another unit (widths / kernel parameters converted with it): every clause is scale free
        if rnd.random() < 0.15:
            xs = rnd.choice([1e-12, 1e-9, 1e-6, 1e-3, 1e3, 1e6, 1e9])
            c["xscale"] = xs
            c["width"] = repr(float(c["width"]) * xs * xs)
        cases.append(c)
    # sizes beyond any "small problem" switch an implementation may have (size-gated code paths, e.g. `if (N > 1000)`)
    for N in ([1100] if tier != "thorough" else [1001, 1100, 1500]):
        cases.append(base(rnd, mode="le", method="le", N=N, D=3, td=2, k=10, data="swiss", width=10.0, nm="covertree", em="dense", timeout=1800, ticks=0))
        cases.append(base(rnd, mode="dm", method="dm", N=N, D=3, td=2, data="gauss", width=2.0, timesteps=2, em="dense", timeout=1800, ticks=0))
    return [dict(name="spec", exe=bins["spectral"], cases=finish(cases, "e"), timeout=300)]


def coverage(recs, tier):
    sym = {}
    for st, c, r in recs:
        s = r.get("str", {}).get("le_symmetrisation")
        if s:
            sym[s] = sym.get(s, 0) + 1
    return generic_coverage(recs, "case = one Laplacian Eigenmaps or Diffusion Map call (data, N, k, width over 6 decades, timesteps 1..10, td 1..5); non-trivial = compared with the reference eigenpairs",
                            dict(le_symmetrisation_that_fitted=sym))
