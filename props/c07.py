"""C07: a returned projection function reproduces the embedding and is affine."""
import random
from props._spectral import SPECTRAL, base, finish, generic_coverage

ID = "C07"
LEVEL = "exploration"
TECHNIQUE = "consistency oracle between the two outputs of one call (projection(x_i) vs embedding row i), affinity on random convex/extrapolating combinations incl. out-of-sample vectors, comparison with the exposed (P, mean); null-projection check for the 15 other methods; under ASan/UBSan"
LEVEL_TEXT = "For the five projecting methods every training sample is pushed through the returned function and compared with its embedding row; affinity and the formula P^T(x-mean) are checked on random vectors; all other methods must return an empty projection."
LEVEL_NOTE = "Tolerance 1e-10 relative to the embedding scale; cases with non-finite embeddings are left to C01/C10."
ASSUMPTIONS = []


def targets(tier):
    return [SPECTRAL]


def stages(tier, seed, bins):
    rnd = random.Random(seed * 1051 + 7)
    n = 3000 if tier == "thorough" else 220
    cases = []
    proj = ["pca", "rp", "npe", "lltsa", "lpp"]
    others = ["klle", "kltsa", "hlle", "le", "dm", "isomap", "lisomap", "mds", "lmds", "spe", "kpca", "fa", "tsne", "ms", "passthru"]
    for i in range(n):
        m = rnd.choice(proj) if rnd.random() < 0.8 else rnd.choice(others)
        N = rnd.choice([12, 20, 40, 80, 150])
        D = rnd.choice([2, 3, 5, 8, 12])
        td = rnd.choice([1, 2, 3])
        td = min(td, D)
        if m in ("tsne",):
            N, td = 24, 2
        if m in ("ms",):
            N = 16
            td = min(td, D - 1) or 1
        c = base(rnd, mode="proj", method=m, N=N, D=D, td=td, data=rnd.choice(["mix", "gauss", "swiss"]), offset=rnd.choice([0, 5, 100]),
                 k=rnd.choice([6, 8, 10]), width=rnd.choice([1.0, 10.0]), maxiter=3, perp=5, ratio=0.5, nm=rnd.choice(["brute", "vptree", "covertree"]))
        if c["data"] == "swiss":
            c["D"] = 3
            c["td"] = min(c["td"], 3)
        if m == "rp":
            c["td"] = rnd.choice([1, 2, 5, D, D + 3])
            c["td"] = min(c["td"], N - 1)
        if m == "hlle":
            c["k"] = 12
        cases.append(c)
    return [dict(name="proj", exe=bins["spectral"], cases=finish(cases, "j"), timeout=300)]


def coverage(recs, tier):
    pv = sum(int(r.get("num", {}).get("projected_vectors", 0)) for st, c, r in recs)
    return generic_coverage(recs, "case = one embed call; projecting methods: all N training samples + 160 random vectors pushed through the returned function; "
                                  "other methods: projection must be empty; non-trivial = projection compared or emptiness checked", dict(projected_vectors=pv))
