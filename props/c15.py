"""C15: OpenMP regions are race-free; results do not depend on the thread count."""
import random
from vlib.build import Target

ID = "C15"
LEVEL = "exploration"
TECHNIQUE = "ThreadSanitizer with the Archer OMPT tool on a clang/libomp build of every OpenMP stage (one process per stage x thread count x delay seed, reports de-duplicated by repository frames) + thread-count differential (1 vs 2/3/4/8/16 threads) on TSan, ASan and gcc/libgomp builds; harness callbacks inject seeded delays inside the parallel loops and record iteration->thread maps and iteration start orders"
LEVEL_TEXT = ("Each parallel stage (both distance-matrix routines, both geodesic routines with both heap back-ends, the three weight-matrix routines, the diffusion matrix, triangulation, "
              "the CLI's matrix_from_callback) and the methods built on them are executed under a happens-before race detector that understands OpenMP synchronisation, with perturbed "
              "schedules; any report with a frame in include/tapkee or src/cli is a violation, as is any result that differs from the single-threaded one beyond 1e-10 (stages) or the measured conditioning (embeddings).")
LEVEL_NOTE = "Happens-before detection speaks for the schedules executed (their number and diversity is in the evidence). Archer models LLVM libomp; the shipped configuration uses libgomp, covered by the differential leg only. No claim about interleavings not produced."
ASSUMPTIONS = ["the race-freedom argument transfers between OpenMP runtimes because it rests on the semantics of the pragmas",
               "TSAN_OPTIONS=ignore_noninstrumented_modules=1 (libomp itself is not instrumented)"]

FH = ("-DTAPKEE_USE_FIBONACCI_HEAP",)
CLI = ("-DVERIF_WITH_CLI",)


def targets(tier):
    return [Target("omp_tsan", "tsan", [("d_omp.cpp", CLI), "embed_api.cpp"]),
            Target("omp_tsan_fh", "tsan", [("d_omp.cpp", FH), ("embed_api.cpp", FH)]),
            Target("omp_prod", "prod", [("d_omp.cpp", CLI), "embed_api.cpp"]),
            Target("omp_asan", "asan", [("d_omp.cpp", CLI), "embed_api.cpp"])]


STAGES = ["dist", "dist_lm", "geo", "geo_lm", "lle", "ltsa", "hlle", "dm", "tri", "cli"]
E2E = ["klle", "kltsa", "hlle", "isomap", "lisomap", "mds", "lmds", "dm", "kpca", "le"]
E2E_SERIAL = ["pca", "npe", "lltsa", "lpp", "spe", "rp", "fa", "tsne", "ms", "passthru"]


def gen(tier, seed, rnd, kind):
    thorough = tier == "thorough"
    seeds = 40 if thorough else 3
    cases = []
    for stage in STAGES:
        for threads in [2, 3, 4, 8, 16]:
            for s in range(seeds if kind == "tsan" else max(1, seeds // 3)):
                N = rnd.choice([40, 60, 90]) if not thorough else rnd.choice([40, 60, 90, 150, 250])
                td = rnd.choice([1, 2, 3])
                cases.append(dict(mode="stage", ctx=stage, stage=stage, threads=threads, data=rnd.choice(["gauss", "swiss"]), N=N, D=3,
                                  k=rnd.choice([8, 12]) if stage != "hlle" else 12, td=td if stage != "hlle" else min(td, 2), dseed=rnd.randrange(1 << 30),
                                  delay_seed=rnd.randrange(1 << 30), delays=1, width=2.0, timeout=600, ticks=0))
                if s == 0 and threads in (3, 8):
                    cases[-1]["nested"] = 1  # also from inside an application parallel region (team smaller than the thread bound)
                if stage in ("geo", "geo_lm") and s % 2 == 1 or (stage in ("geo", "geo_lm") and seeds == 1):
                    # a directed k-NN graph that is not strongly connected (clusters 1000 sigma apart plus outliers, k = 3, no
                    # connectivity check): sources reach different vertex sets, unreachable pairs keep the sentinel
                    cases[-1].update(data="clusters", nc=2, gap=1000, ratio=0.5, outliers=3, k=3, N=rnd.choice([23, 40, 61]))
    # one execution per stage at a size beyond any "small problem" switch (e.g. `#pragma omp parallel for if (N > 1000)`)
    if kind in ("tsan", "prod"):
        for stage in STAGES:
            if stage == "cli" or (stage == "hlle" and not thorough):
                continue
            cases.append(dict(mode="stage", ctx=stage, stage=stage, threads=4, data="swiss", N=1100, D=3, k=8 if stage != "hlle" else 12, td=2,
                              dseed=rnd.randrange(1 << 30), delay_seed=rnd.randrange(1 << 30), delays=1, width=2.0, timeout=1800, ticks=0))
    return cases


def gen_e2e(tier, seed, rnd, kind):
    thorough = tier == "thorough"
    reps = 6 if thorough else 1
    cases = []
    for m in E2E:
        for threads in ([2, 3, 8, 16] if kind != "tsan" else [3, 8]):
            for rep in range(reps):
                N = rnd.choice([30, 50, 80])
                td = rnd.choice([1, 2])
                cases.append(dict(mode="e2e", method=m, threads=threads, data=rnd.choice(["gauss", "swiss"]), N=N, D=3, td=td,
                                  k=12 if m == "hlle" else rnd.choice([6, 9]), nm=rnd.choice(["brute", "vptree", "covertree"]), em="dense", width=3.0,
                                  timesteps=2, ratio=0.6,
                                  dseed=rnd.randrange(1 << 30), delay_seed=rnd.randrange(1 << 30), srand=rnd.randrange(1 << 30),
                                  shuffle=rnd.randrange(1 << 30), timeout=900, ticks=0))
    # the methods that have no parallel region of their own today: a region added to one of them (or to a helper they share)
    # must be race-free and thread-count independent as well; t-SNE also at a size beyond any "small problem" switch
    for m in E2E_SERIAL:
        if kind != "tsan" and m in ("spe", "rp", "fa", "tsne", "ms"):
            continue  # chaotic / random: only the race detector speaks for them
        for rep in range(reps):
            N = rnd.choice([30, 50])
            c = dict(mode="e2e", method=m, threads=4 if kind == "tsan" else 8, data="gauss", N=N, D=4, td=2, k=8, nm=rnd.choice(["brute", "vptree", "covertree"]),
                     em="dense", width=3.0,
                     maxiter=5, perp=5, theta=0.5, dseed=rnd.randrange(1 << 30), delay_seed=rnd.randrange(1 << 30), srand=rnd.randrange(1 << 30),
                     shuffle=rnd.randrange(1 << 30), timeout=900, ticks=0)
            if m == "ms":
                c.update(N=16, maxiter=2)
            cases.append(c)
    if kind in ("tsan", "prod"):
        for nm in ["brute", "vptree", "covertree"]:
            cases.append(dict(mode="e2e", method="le", threads=4, data="swiss", N=400, D=3, td=2, k=8, nm=nm, em="dense", width=10.0,
                              dseed=rnd.randrange(1 << 30), delay_seed=rnd.randrange(1 << 30), srand=rnd.randrange(1 << 30), shuffle=rnd.randrange(1 << 30),
                              timeout=1800, ticks=0))
    if kind == "tsan":
        cases.append(dict(mode="e2e", method="tsne", threads=4, data="clusters", nc=3, gap=6, N=1100, D=4, td=2, maxiter=3, perp=10, theta=0.5,
                          dseed=rnd.randrange(1 << 30), delay_seed=rnd.randrange(1 << 30), srand=rnd.randrange(1 << 30), shuffle=rnd.randrange(1 << 30),
                          timeout=1800, ticks=0))
    return cases


def stages(tier, seed, bins):
    rnd = random.Random(seed * 1109 + 15)
    out = []

    def number(cases, prefix):
        for i, c in enumerate(cases):
            c["id"] = "%s%d" % (prefix, i + 1)
        return cases

    tsan_cases = number(gen(tier, seed, rnd, "tsan") + gen_e2e(tier, seed, rnd, "tsan"), "t")
    fh_cases = number([c for c in gen(tier, seed, rnd, "fh") if c["stage"] in ("geo", "geo_lm")], "h")
    # (the TSan runtime also honours UBSAN_OPTIONS/exitcode: keep it at 0 so that a run with reports still ends normally)
    env = {"OMP_WAIT_POLICY": "passive", "KMP_BLOCKTIME": "0", "UBSAN_OPTIONS": "print_stacktrace=1:exitcode=0", "ASAN_OPTIONS": "exitcode=0"}
    out.append(dict(name="tsan", exe=bins["omp_tsan"], cases=tsan_cases, per_process=True, jobs=6, timeout=600, env=env))
    out.append(dict(name="tsan_fh", exe=bins["omp_tsan_fh"], cases=fh_cases, per_process=True, jobs=6, timeout=600, env=env))
    out.append(dict(name="prod", exe=bins["omp_prod"], cases=number(gen(tier, seed, rnd, "prod") + gen_e2e(tier, seed, rnd, "prod"), "p"), jobs=4,
                    timeout=600, env={"OMP_WAIT_POLICY": "passive"}))
    out.append(dict(name="asan", exe=bins["omp_asan"], cases=number(gen(tier, seed, rnd, "asan") + gen_e2e(tier, seed, rnd, "asan"), "a"), jobs=4,
                    timeout=600, env={"OMP_WAIT_POLICY": "passive", "KMP_BLOCKTIME": "0"}))
    return out


def coverage(recs, tier):
    maps = {}
    orders = {}
    threads = set()
    by_stage = {}
    tsan_runs = 0
    worst = {}
    sig = set()
    for st, c, r in recs:
        name = c.get("stage") or ("e2e:" + c.get("method", "?"))
        key = "%s/%s" % (st["name"], name)
        by_stage[key] = by_stage.get(key, 0) + 1
        if st["name"].startswith("tsan"):
            tsan_runs += 1
        s = r.get("str", {})
        if "map" in s:
            maps.setdefault(name, set()).add(s["map"])
            orders.setdefault(name, set()).add(s["order"])
        num = r.get("num", {})
        if "threads" in num:
            threads.add(int(num["threads"]))
        if isinstance(num.get("dev"), (int, float)):
            worst[name] = max(worst.get(name, 0), num["dev"])
        if r.get("nontrivial"):
            sig.add((st["name"], name, c["threads"], c["delay_seed"]))
    return dict(
        rule="case = one execution of a parallel stage (or of a whole method) with a given thread count and delay seed, preceded by its single-threaded twin, in one of four builds "
             "(TSan+Archer priority-queue, TSan+Archer Fibonacci-heap, gcc/libgomp -O2, ASan); non-trivial = at least two threads actually served iterations; "
             "distinct = distinct (build, stage, threads, delay seed)",
        distinct_nontrivial=len(sig), parallel_region_executions_under_tsan=tsan_runs, thread_counts_seen=sorted(threads),
        distinct_iteration_to_thread_maps_by_stage={k: len(v) for k, v in sorted(maps.items())},
        distinct_iteration_start_orders_by_stage={k: len(v) for k, v in sorted(orders.items())},
        executions_by_build_and_stage=by_stage, max_relative_difference_vs_single_thread=worst,
        samples=[" ".join("%s=%s" % kv for kv in c.items()) for st, c, r in recs[::max(1, len(recs) // 6)][:6]],
    )
