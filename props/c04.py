"""C04: Isomap geodesics are exact shortest paths; Isomap is classical MDS of them."""
import random
from vlib.build import Target

ID = "C04"
LEVEL = "exploration"
TECHNIQUE = "reference-model oracle (Floyd-Warshall / independent Dijkstra on the same neighbour lists), bitwise differential across heap back-ends, thread counts and the landmark overload, and a spectral reference for Isomap, all under ASan/UBSan"
LEVEL_TEXT = ("Every entry of both compute_shortest_distances_matrix overloads is compared with reference shortest paths on generated graphs "
              "(k-NN graphs of data, random k-out digraphs with integer weights, ring lattices, disconnected graphs); results must be bitwise equal "
              "for 1/2/3/8/16 threads, for the priority-queue and the Fibonacci-heap build, and between landmark rows and full-matrix rows. "
              "Isomap's embedding Gram matrix is compared with the rank-td truncation of the double-centred symmetrised squared geodesics.")
LEVEL_NOTE = "Trusts the harness's Floyd-Warshall/Dijkstra and Eigen's dense symmetric eigensolver; subspace comparisons are conditioned on the reference eigen-gap (>=1e-6)."
ASSUMPTIONS = ["Dijkstra labels are unique in floating point for non-negative weights, hence bitwise equality across back-ends/threads is the right demand",
               "Isomap reference uses the neighbour lists the library's own find_neighbors returns (tie-free generic data)"]

FH = ("-DTAPKEE_USE_FIBONACCI_HEAP",)


def targets(tier):
    return [Target("geodesic_pq", "asan", ["d_geodesic.cpp", "embed_api.cpp"]),
            Target("geodesic_fh", "asan", ["d_geodesic.cpp", "embed_api.cpp"], extra=FH)]


def gen_cases(tier, seed):
    rnd = random.Random(seed * 1019 + 4)
    thorough = tier == "thorough"
    cases = []

    def add(**kw):
        kw["id"] = "s%d" % (len(cases) + 1)
        kw.setdefault("ticks", 100000000)
        kw.setdefault("timeout", 600)
        cases.append(kw)

    ngeo = 6000 if thorough else 330
    for i in range(ngeo):
        graph = rnd.choice(["knn", "knn", "synthetic", "synthetic", "ring"])
        N = rnd.choice([2, 3, 5, 8, 13, 20, 31, 32, 33, 50, 64, 100, 128, 150])
        if rnd.random() < (0.03 if thorough else 0.01):
            N = rnd.choice([300, 600, 1200])
        k = rnd.choice([1, 2, 3, 4, 5, 8, 12])
        k = max(1, min(k, N - 1))
        c = dict(mode="geo", graph=graph, N=N, k=k, gseed=rnd.randrange(1 << 30),
                 lm=rnd.choice(["random", "random", "all", "first", "last", "single"]),
                 threads=rnd.choice(["1,2,3,8,16", "1,16", "1,3", "2,8"]))
        if graph == "knn":
            c.update(data=rnd.choice(["gauss", "lattice", "clusters", "swiss", "dup"]), D=rnd.choice([2, 3, 5]),
                     dseed=rnd.randrange(1 << 30), dist=rnd.choice(["l2", "l2", "l1"]))
            if c["data"] == "swiss":
                c["D"] = 3
            if c["data"] == "clusters":
                c.update(nc=rnd.choice([2, 3]), gap=rnd.choice([3, 30]), ratio=rnd.choice([1.0, 0.3]))
            if c["data"] == "dup":
                c["copies"] = 2
            if rnd.random() < 0.15:
                c["xscale"] = rnd.choice([1e-6, 1e-3, 1e3, 1e6])  # the same data in another unit
        else:
            c.update(intw=rnd.choice([1, 1, 0]), components=rnd.choice([1, 1, 1, 2, 3]))
        # logical-step budget from the size: consolidate/cut loops make O((k + log N) N) steps per source, N sources per thread count
        # (measured 1.3e8 at N=1200, k=5, 5 thread counts); the fixed 1e8 was reported as non-termination there
        c["ticks"] = max(100000000, 40 * (k + 10) * N * N * 6)
        add(**c)
    niso = 1500 if thorough else 110
    for i in range(niso):
        N = rnd.choice([12, 20, 33, 50, 80, 120])
        k = rnd.choice([3, 4, 5, 7, 10])
        if k >= N:
            k = N - 1
        td = rnd.choice([1, 2, 3])
        data = rnd.choice(["swiss", "gauss", "scurve", "clusters"])
        c = dict(mode="isomap", method="isomap", data=data, N=N, D=3 if data in ("swiss", "scurve") else rnd.choice([3, 5]),
                 dseed=rnd.randrange(1 << 30), k=k, td=td, nm=rnd.choice(["brute", "vptree", "covertree"]), em="dense")
        if data == "clusters":
            c.update(nc=2, gap=4, ratio=0.5)
        if rnd.random() < 0.15:
            c["xscale"] = rnd.choice([1e-6, 1e-3, 1e3, 1e6])
        add(**c)
    return cases


def stages(tier, seed, bins):
    cases = gen_cases(tier, seed)
    return [dict(name="pq", exe=bins["geodesic_pq"], cases=cases, timeout=600),
            dict(name="fh", exe=bins["geodesic_fh"], cases=[dict(c) for c in cases], timeout=600)]


def post(records):
    by = {}
    out = []
    for st, c, r in records:
        if c.get("mode") != "geo" or "hashG" not in r.get("str", {}):
            continue
        by.setdefault(c["id"], {})[st["name"]] = (st, c, r)
    for cid, d in by.items():
        if "pq" in d and "fh" in d:
            a, b = d["pq"][2]["str"], d["fh"][2]["str"]
            if a["hashG"] != b["hashG"] or a["hashL"] != b["hashL"]:
                out.append(dict(key="geo|geo:backend-dependent", detail="priority-queue and Fibonacci-heap builds give different geodesic matrices (%s/%s vs %s/%s)" % (
                    a["hashG"], a["hashL"], b["hashG"], b["hashL"]), stage=d["fh"][0], case=d["fh"][1]))
    return out


def coverage(recs, tier):
    entries = 0
    cells = {}
    sig = set()
    pairs = 0
    for st, c, r in recs:
        entries += int(r.get("num", {}).get("entries", 0))
        for t in r.get("tags", []):
            cells[t] = cells.get(t, 0) + 1
        if r.get("nontrivial"):
            sig.add((c["mode"], c.get("graph", c.get("data")), c["N"], c["k"], c.get("gseed", c.get("dseed"))))
        if st["name"] == "fh" and c.get("mode") == "geo":
            pairs += 1
    return dict(
        rule="case = one graph (k-NN graph of a data set, random k-out digraph, ring lattice; some deliberately disconnected) with one landmark subset, "
             "run in the priority-queue and the Fibonacci-heap build at several thread counts, or one Isomap call; non-trivial = N>k+1 (graph cases) or "
             "a conclusive spectral comparison (Isomap); distinct = distinct (mode, graph/data kind, N, k, seed)",
        distinct_nontrivial=len(sig), entries_compared_with_reference=entries, backend_pairs_compared_bitwise=pairs,
        cases_by_cell=cells,
        samples=[" ".join("%s=%s" % kv for kv in c.items()) for st, c, r in recs[::max(1, len(recs) // 6)][:6]],
    )
