"""C17: t-SNE calibrated similarities from true neighbours, true KL gradient."""
import random
from vlib.build import Target
from props.c18 import TSNE

ID = "C17"
LEVEL = "exploration"
TECHNIQUE = "white-box calls of tsne::TSNE internals compared with independent references: entropy/Gaussian-shape fit of P rows, brute-force K-NN, dense (P+P^T)/2, central finite differences of KL, O(N^2) Barnes-Hut reference sums; end-to-end cluster-purity oracle; under ASan/UBSan"
LEVEL_TEXT = ("Per generated input: every row of the exact and the Barnes-Hut similarity matrices is checked for normalisation, entropy (1e-4), Gaussian shape in the TRUE squared "
              "distance and (BH) for being a true floor(3*perplexity)-NN set; symmetrizeMatrix is compared with the dense (P+P^T)/2; computeExactGradient with finite differences "
              "of KL; computeGradient with exact sums at theta 0.1/0.01/1e-6; public-API runs on separated clusters are checked for centring and cluster purity.")
LEVEL_NOTE = "Finite-difference accuracy (1e-5 relative) bounds the gradient check; 'converges as theta -> 0' is restated as an error envelope on a finite theta grid; random streams come from std::rand seeded per case."
ASSUMPTIONS = ["private members reached with -fno-access-control", "data are generic (pairwise distinct) so the binary search for beta converges"]


def targets(tier):
    return [TSNE]


def stages(tier, seed, bins):
    rnd = random.Random(seed * 1031 + 17)
    thorough = tier == "thorough"
    cases = []

    def add(**kw):
        kw["id"] = "t%d" % (len(cases) + 1)
        kw.setdefault("timeout", 900)
        kw.setdefault("ticks", 500000000)
        cases.append(kw)

    nper = 1200 if thorough else 70
    for i in range(nper):
        N = rnd.choice([12, 20, 33, 50, 80, 120, 200])
        maxp = (N - 1) / 3.0
        perp = rnd.choice([1.5, 2.0, 3.0, 5.0, 10.0, 30.0, maxp, maxp * 0.5])
        perp = min(perp, maxp)
        if perp <= 1.0:
            perp = 1.5
        kind = rnd.choice(["gauss", "clusters", "swiss", "mix", "lattice", "dup"])
        extra = {}
        if kind == "lattice":
            extra = dict(ldims=rnd.choice([1, 2]), perm=rnd.randrange(1, 1 << 30))
            perp = min(perp, rnd.choice([1.5, 2.0, 3.0, 5.0]))
        if kind == "dup":
            # repeated samples: rows whose closest candidates tie at distance zero cannot reach a small perplexity
            extra = dict(copies=rnd.choice([2, 3, 4, 6]), perm=rnd.randrange(1, 1 << 30))
            perp = min(perp, rnd.choice([1.5, 2.0, 3.0, 5.0]))
        if rnd.random() < 0.15:
            extra["xscale"] = rnd.choice([1e-6, 1e-3, 1e3, 1e6])  # the input is max-normalised: the unit must not matter
        add(mode="perp", data=kind, N=N, D=rnd.choice([2, 3, 5, 10, 20]),
            dseed=rnd.randrange(1 << 30), perp="%.6g" % perp, srand=rnd.randrange(1 << 30), nc=3, gap=6, **extra)
    ngrad = 1000 if thorough else 60
    for i in range(ngrad):
        N = rnd.choice([12, 20, 33, 50, 80])
        maxp = (N - 1) / 3.0
        perp = min(rnd.choice([2.0, 3.0, 5.0, 10.0]), maxp)
        add(mode="grad", data=rnd.choice(["gauss", "clusters", "swiss"]), N=N, D=rnd.choice([2, 3, 5, 10]),
            dseed=rnd.randrange(1 << 30), perp="%.6g" % perp, srand=rnd.randrange(1 << 30), nc=3, gap=6,
            map=rnd.choice(["init", "unit", "unit", "spread", "clustered"]), td=rnd.choice([2, 2, 2, 1, 3]),
            mseed=rnd.randrange(1 << 30))
    # large maps on several threads (Barnes-Hut part only): sizes beyond any "small problem" switch in the implementation
    for N in ([1100, 1600, 2500] if not thorough else [1001, 1100, 1600, 2500, 2500, 4000, 5000]):
        add(mode="grad", big=1, threads=rnd.choice([4, 8]), data=rnd.choice(["gauss", "clusters"]), N=N, D=rnd.choice([3, 10]),
            dseed=rnd.randrange(1 << 30), perp=rnd.choice([10, 30]), srand=rnd.randrange(1 << 30), nc=3, gap=6,
            map=rnd.choice(["unit", "spread", "clustered"]), td=2, mseed=rnd.randrange(1 << 30), timeout=1800)
    ne2e = 60 if thorough else 8
    for i in range(ne2e):
        N = rnd.choice([45, 60, 90]) if not thorough else rnd.choice([45, 60, 90, 150])
        theta = rnd.choice([0, 0.5, 0.5, 0.2])
        add(mode="e2e", method="tsne", N=N, D=rnd.choice([3, 4, 10]), dseed=rnd.randrange(1 << 30), td=2,
            perp=rnd.choice([5, 10, min(14, (N - 1) // 3)]), theta=theta, gap=rnd.choice([12, 20]), srand=rnd.randrange(1 << 30),
            timeout=1800)
    return [dict(name="tsne", exe=bins["tsne"], cases=cases, timeout=900)]


def coverage(recs, tier):
    tags = {}
    sig = set()
    worst = {}
    for st, c, r in recs:
        for t in r.get("tags", []):
            tags[t] = tags.get(t, 0) + 1
        for k, v in r.get("num", {}).items():
            if isinstance(v, (int, float)) and ("err" in k or "dev" in k or "resid" in k):
                worst[k] = max(worst.get(k, 0), v)
        if r.get("nontrivial"):
            sig.add((c["mode"], c["N"], c["dseed"], c.get("map"), c.get("theta")))
    return dict(
        rule="case = one input (data set, perplexity[, map configuration, theta]) for one of three monitors: similarity rows (exact + Barnes-Hut), gradients (exact vs finite "
             "differences, Barnes-Hut vs exact sums), end-to-end public API on three separated clusters; non-trivial = the monitor ran to completion; distinct = distinct (mode, N, seed, map, theta)",
        distinct_nontrivial=len(sig), cases_by_tag=tags, worst_observed=worst,
        samples=[" ".join("%s=%s" % kv for kv in c.items()) for st, c, r in recs[::max(1, len(recs) // 6)][:6]],
    )
