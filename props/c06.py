"""C06: PCA projects onto the leading principal subspace of the sample covariance."""
import random
from props._spectral import SPECTRAL, base, finish, generic_coverage

ID = "C06"
LEVEL = "exploration"
TECHNIQUE = "independent reference (dense eigen-decomposition of the fully populated sample covariance) + variance-optimality oracle against 50 random orthonormal frames + cross-method differential (PCA vs linear KPCA vs Euclidean MDS); under ASan/UBSan"
LEVEL_TEXT = ("For every generated feature matrix (correlated features, large offsets) the returned projection matrix is checked for orthonormal columns, for spanning the leading eigenspace, "
              "for optimal captured variance, the embedding for being (X-mean)^T P with uncorrelated columns of the right variances, and PCA is compared with linear Kernel PCA and Euclidean MDS.")
LEVEL_NOTE = "Subspace claims conditioned on the eigen-gap at the cut (>= 1e-6); randomized solver only on exact-rank data."
ASSUMPTIONS = ["proj_mat / mean_vec are read from the public MatrixProjectionImplementation fields"]


def targets(tier):
    return [SPECTRAL]


def stages(tier, seed, bins):
    rnd = random.Random(seed * 1049 + 6)
    n = 5000 if tier == "thorough" else 260
    cases = []
    for i in range(n):
        N = rnd.choice([3, 4, 6, 10, 20, 50, 120, 400])
        D = rnd.choice([1, 2, 3, 5, 8, 15, 40])
        em = rnd.choice(["dense", "dense", "dense", "randomized"])
        hi = min(N - 1, D)
        td = max(1, min(hi, rnd.choice([1, 2, 3, hi, hi - 1])))
        c = base(rnd, mode="pca", method="pca", N=N, D=D, td=td, data="mix", q=D if em == "dense" else td,
                 offset=rnd.choice([0, 1, 10, 1000]), em=em, cross=1 if (em == "dense" and rnd.random() < 0.5 and N <= 120) else 0)
        if c["offset"] > 10:
            c["cross"] = 0
        if em == "dense" and rnd.random() < 0.2:
            c["q"] = max(1, min(D, rnd.choice([td, td + 1])))
        # the same data measured in another unit (widths / kernel parameters converted with it): every clause is scale free
        if rnd.random() < 0.15:
            c["xscale"] = rnd.choice([1e-12, 1e-9, 1e-6, 1e-3, 1e3, 1e6, 1e9])
        cases.append(c)
    # sizes beyond any "small problem" switch an implementation may have (size-gated code paths, e.g. `if (N > 1000)`)
    for N in ([1100, 3000] if tier != "thorough" else [1001, 1100, 3000, 10000]):
        cases.append(base(rnd, mode="pca", method="pca", N=N, D=8, td=3, data="mix", q=8, offset=rnd.choice([0, 10]), em="dense", cross=0, timeout=1200,
                          ticks=0))
    return [dict(name="pca", exe=bins["spectral"], cases=finish(cases, "p"), timeout=300)]


def coverage(recs, tier):
    return generic_coverage(recs, "case = one PCA call on X = A Z + mu (random mixing A, offset mu, rank q) with optional KPCA/MDS twins; non-trivial = compared with the reference covariance spectrum")
