"""C14: invalid requests raise the documented exception before any computation."""
import random
from vlib.build import Target
from props.c13 import FORMS_TARGET, ALL

ID = "C14"
LEVEL = "exploration"
TECHNIQUE = "table-driven request monitor: for every (keyword, method, side of the bound) cell the expected exception type is taken from the statement, requests are built at run time in random keyword order and callback attachment order, counting callbacks assert zero kernel/distance evaluations before the throw; parameter echo captured through a LoggerImplementation for the defaults clause; under ASan/UBSan"
LEVEL_TEXT = ("The whole bound table (target_dimension, num_neighbors, width, timesteps, SPE tolerance/updates, landmark_ratio, perplexity, theta, FA epsilon, squishing rate; below / at / above), "
              "duplicates, missing method, wrong value types, empty range, cancellation and all seven callback subsets are enumerated for every method that uses the keyword, on several data sizes; "
              "the defaults clause is checked on random subsets of explicitly set keywords.")
LEVEL_NOTE = "Single-fault requests only (precedence between simultaneous faults is not specified). 'Accepted' = no parameter/type/duplicate/missing/no-data/cancel error. The table is enumerated completely for the generated sizes (exhaustive over cells, not over values)."
ASSUMPTIONS = ["documented defaults are the ones in the doc comments of include/tapkee/defines/keywords.hpp (no ARPACK, cover tree available)"]


def targets(tier):
    return [FORMS_TARGET]


def stages(tier, seed, bins):
    rnd = random.Random(seed * 1103 + 14)
    thorough = tier == "thorough"
    cases = []
    # sizes cover every residue of N-1 modulo 3 (the perplexity bound is (N-1)/3) and odd/even N
    sizes = [9, 11, 13, 20] if not thorough else [7, 8, 9, 11, 12, 13, 20, 21, 22, 30, 35, 40]
    for m in ALL:
        for N in sizes:
            if m in ("tsne", "ms") and N > 22:
                continue
            cases.append(dict(mode="table", method=m, data="gauss", N=N, D=3, dseed=rnd.randrange(1 << 30), tseed=rnd.randrange(1 << 30),
                              srand=1, shuffle=1, timeout=240, ticks=200000000))
    for i in range(400 if thorough else 40):
        cases.append(dict(mode="defaults", ctx="defaults", data="gauss", N=8, D=3, dseed=1, tseed=rnd.randrange(1 << 30), timeout=120,
                          ticks=1000000))
    for i, c in enumerate(cases):
        c["id"] = "v%d" % (i + 1)
    return [dict(name="table", exe=bins["forms"], cases=cases, timeout=900)]


def coverage(recs, tier):
    cells = set()
    req = kw = 0
    for st, c, r in recs:
        req += int(r.get("num", {}).get("requests", 0))
        kw += int(r.get("num", {}).get("keywords_checked", 0))
        for t in r.get("tags", []):
            if t.startswith("cell:"):
                cells.add(t)
    return dict(
        rule="case = all single-fault and boundary requests of one (method, N) pair, or one random defaults probe; cells = (method, keyword=value class); "
             "non-trivial = the request list of the case was executed; distinct_nontrivial = number of distinct (method, cell) pairs exercised",
        distinct_nontrivial=len(cells), requests_issued=req, default_echo_keywords_checked=kw,
        exhaustive=False,
        samples=sorted(cells)[:: max(1, len(cells) // 12)][:12],
    )
