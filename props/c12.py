"""C12: embeddings are equivariant to sample order, rigid motion, scale, call history."""
import random
from vlib.build import Target

ID = "C12"
LEVEL = "exploration"
TECHNIQUE = "metamorphic pairs through the public API (permutation, rotation/reflection, translation, scaling, preceding-call histories) compared on embedding distance matrices, with a tolerance derived from a measured per-case amplification (perturbed twin run); single-threaded, under ASan/UBSan"
LEVEL_TEXT = ("Every deterministic method is run on a data set and on its transformed twin; the pairwise distances of the two embeddings must agree (rows re-matched for permutations, "
              "scaled by c for MDS/Isomap/linear KPCA/PCA). The history leg makes a call after related calls (same method and size on other data, same data with other parameters), repeats it after 1-6 unrelated embed calls (other methods, sizes, invalid requests that throw) in the same process, and compares both with the same call made in a process of its own (the driver re-executes itself on a one-case file).")
LEVEL_NOTE = "No reference is needed; the tolerance is max(1e-9, 1000 * amplification * rounding size of the transformation) where amplification is measured by a 1e-9 relative perturbation; cases above 1e-3 are inconclusive."
ASSUMPTIONS = ["tie-free generic data so that neighbour sets are unique", "dense eigensolver; methods that draw random numbers are excluded as the statement does"]
META = Target("meta", "asan", ["d_meta.cpp", "embed_api.cpp"])

DET = ["klle", "kltsa", "hlle", "le", "lpp", "npe", "lltsa", "dm", "isomap", "mds", "kpca", "pca", "passthru"]
SCALE = ["mds", "isomap", "kpca", "pca"]
NO_TRANS = ["npe", "lpp"]


def targets(tier):
    return [META]


def stages(tier, seed, bins):
    rnd = random.Random(seed * 1091 + 12)
    thorough = tier == "thorough"
    cases = []
    reps = 25 if thorough else 2
    for rep in range(reps):
        for m in DET:
            trs = ["perm", "perm", "rot", "trans", "hist"]
            if m in SCALE:
                trs.append("scale")
            if m in NO_TRANS:
                trs = [t for t in trs if t != "trans"]
            for tr in trs:
                for ds in range(2 if not thorough else 2):
                    N = rnd.choice([20, 30, 45, 70])
                    kind = rnd.choice(["gauss", "swiss", "scurve", "mix"])
                    if tr == "perm" and ds == 1 and m not in ("mds", "kpca", "pca", "passthru"):
                        kind = "srcfirst"  # sample 0 is a source of the directed k-NN graph; the permutation moves it elsewhere
                    D = 3 if kind in ("swiss", "scurve") else rnd.choice([3, 4, 6])
                    td = rnd.choice([1, 2, 2, 3])
                    td = min(td, D - 1) if m in ("npe", "lltsa", "lpp") else min(td, D)
                    k = rnd.choice([6, 8, 10])
                    if m == "hlle":
                        k = max(k, 2 + td + td * (td + 1) // 2 + 2)
                    c = dict(mode="meta", method=m, transform=tr, data=kind, N=N, D=D, td=td, k=k, dseed=rnd.randrange(1 << 30),
                             tseed=rnd.randrange(1 << 30), srand=rnd.randrange(1 << 30), nm=rnd.choice(["brute", "vptree", "covertree"]),
                             em="dense", width=rnd.choice([1.0, 5.0]), timesteps=rnd.choice([1, 3]), offset=rnd.choice([0, 2]),
                             timeout=300, ticks=50000000)
                    if rnd.random() < 0.5:
                        c["plabel"] = 1
                    if tr == "perm" and rnd.random() < 0.3:
                        c["reverse"] = 1
                    if tr == "trans":
                        c["shift"] = rnd.choice([1.0, 10.0, 100.0])
                    if tr == "scale":
                        c["factor"] = rnd.choice([1e-8, 1e-6, 1e-3, 0.01, 3.7, 250.0, 1e5, 1e8])
                    cases.append(c)
    for i, c in enumerate(cases):
        c["id"] = "y%d" % (i + 1)
    return [dict(name="meta", exe=bins["meta"], cases=cases, timeout=300)]


def coverage(recs, tier):
    tags = {}
    sig = set()
    hist = threw = fresh = 0
    worst_fresh = 0
    worst = 0
    inconc = 0
    for st, c, r in recs:
        for t in r.get("tags", []):
            tags[t] = tags.get(t, 0) + 1
        num = r.get("num", {})
        hist += int(num.get("history_calls", 0))
        threw += int(num.get("history_calls_that_threw", 0))
        fresh += int(num.get("fresh_process_references", 0))
        if isinstance(num.get("dev_vs_fresh_process"), (int, float)):
            worst_fresh = max(worst_fresh, num["dev_vs_fresh_process"])
        if isinstance(num.get("dev"), (int, float)) and r.get("nontrivial"):
            worst = max(worst, num["dev"])
        if r.get("inconclusive"):
            inconc += 1
        if r.get("nontrivial"):
            sig.add((c["method"], c["transform"], c["dseed"]))
    return dict(
        rule="case = (method, transformation, data set): base run, perturbed twin (conditioning), transformed/repeated run; non-trivial = both embeddings finite and the pair comparable "
             "(tolerance <= 1e-3); distinct = distinct (method, transformation, data seed)",
        distinct_nontrivial=len(sig), pairs_by_method_and_transformation=tags, preceding_calls_in_history_leg=hist, of_which_threw=threw,
        fresh_process_references_compared=fresh, worst_deviation_from_fresh_process=worst_fresh,
        worst_relative_deviation_observed=worst, inconclusive_cases=inconc,
        samples=[" ".join("%s=%s" % kv for kv in c.items()) for st, c, r in recs[::max(1, len(recs) // 6)][:6]],
    )
