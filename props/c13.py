"""C13: the result depends on the data only through callback values, however supplied."""
import random
from vlib.build import Target

ID = "C13"
LEVEL = "exploration"
TECHNIQUE = "differential execution of the real chain interface: one data set pushed through 18 call forms (6 attachment orders x embedRange/embedUsing, feature matrix, precomputed matrices, object sequence, declared-callbacks-only with dummies elsewhere) with counting callbacks; embeddings compared, undeclared callbacks must stay at zero calls; under ASan/UBSan"
LEVEL_TEXT = "All 20 methods (random ones under fixed seeds) are run through every call form on generated data; any difference above 1e-9, any form that throws while the reference form succeeds, any invocation of an undeclared callback is reported."
LEVEL_NOTE = "Ten distinct callback-type combinations are instantiated (one translation unit each); single-threaded so that no schedule noise enters the comparison."
ASSUMPTIONS = ["linear kernel / Euclidean distance in all forms (the matrix form fixes them)", "random methods: std::rand and the shuffle hook are reseeded identically before every form"]

FORMS = [("forms.cpp", ("-DFORM=%d" % f,)) for f in (1, 2, 3, 4, 5, 6, 7, 10, 11, 12)]
FORMS_TARGET = Target("forms", "asan", ["d_forms.cpp", "embed_api.cpp"] + FORMS)
ALL = ["klle", "npe", "kltsa", "lltsa", "hlle", "le", "lpp", "dm", "isomap", "lisomap", "mds", "lmds", "spe", "kpca", "pca",
       "rp", "fa", "tsne", "ms", "passthru"]


def targets(tier):
    return [FORMS_TARGET]


def stages(tier, seed, bins):
    rnd = random.Random(seed * 1097 + 13)
    reps = 20 if tier == "thorough" else 2
    cases = []
    for rep in range(reps):
        for m in ALL:
            N = rnd.choice([16, 24, 40])
            kind = rnd.choice(["gauss", "swiss", "mix"])
            # (feature dimension on both sides of the number of neighbours: a rule such as "regularise only when k > D" reads the
            # dimension off the features callback, which only some call forms attach)
            D = 3 if kind == "swiss" else rnd.choice([3, 4, 5, 8, 12])
            if rep % 2 == 0:
                kind, D = rnd.choice(["gauss", "mix"]), rnd.choice([20, 30])  # k <= D in every even repetition (also after one doubling by the connectivity check), k > D in the odd ones
            td = rnd.choice([1, 2])
            if m == "tsne":
                N, td = 18, 2
            if m == "ms":
                N = 14
            c = dict(mode="forms", method=m, data=kind, N=N, D=D, td=td, k=rnd.choice([6, 8]), dseed=rnd.randrange(1 << 30),
                     srand=rnd.randrange(1 << 30), shuffle=rnd.randrange(1 << 30), width=2.0, maxiter=rnd.choice([5, 40]), perp=4, theta=0.5,
                     ratio=0.6, nm=rnd.choice(["brute", "vptree", "covertree"]), em="dense", speglobal=rnd.choice([0, 1]), offset=1,
                     timeout=900, ticks=200000000)
            if m == "hlle":
                c["k"] = 10
            cases.append(c)
    for i, c in enumerate(cases):
        c["id"] = "f%d" % (i + 1)
    return [dict(name="forms", exe=bins["forms"], cases=cases, timeout=900)]


def coverage(recs, tier):
    forms = sum(int(r.get("num", {}).get("forms_compared", 0)) for st, c, r in recs)
    worst = max([r.get("num", {}).get("form_dev", 0) for st, c, r in recs if isinstance(r.get("num", {}).get("form_dev", 0), (int, float))] or [0])
    methods = sorted(set(c["method"] for st, c, r in recs if r.get("nontrivial")))
    calls = {c["method"]: [int(r["num"].get(k, 0)) for k in ("kernel_calls", "distance_calls", "feature_calls")] for st, c, r in recs if r.get("nontrivial")}
    return dict(
        rule="case = (method, data set); 17-19 further call forms are compared with the reference form; non-trivial = reference form succeeded with a finite embedding; "
             "distinct = distinct (method, data seed)",
        distinct_nontrivial=len(set((c["method"], c["dseed"]) for st, c, r in recs if r.get("nontrivial"))),
        forms_compared=forms, worst_relative_deviation=worst, methods_covered=methods,
        callback_calls_kernel_distance_features_by_method=calls,
        samples=[" ".join("%s=%s" % kv for kv in c.items()) for st, c, r in recs[::max(1, len(recs) // 6)][:6]],
    )
