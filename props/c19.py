"""C19: SPE, Random Projection, Factor Analysis meet their spec for every random stream."""
import random
from vlib.build import Target
from props.c12 import META

ID = "C19"
LEVEL = "exploration"
TECHNIQUE = "public-API runs repeated over many seeded random streams (std::rand x shuffle hook): scale-optimal stress oracle (SPE global), finiteness + neighbour-pair stress (SPE local), moment z-tests at 6 sigma on the exposed projection matrix and same-seed translation pairs (Random Projection, Factor Analysis); under ASan/UBSan"
LEVEL_TEXT = "Each configuration is run under 8 (quick) / 30 (thorough) random streams; every stream must meet the bound, so the claim is per stream, not on average."
LEVEL_NOTE = "'Enough iterations' is restated as the built-in schedule (max_iteration=0) or longer; shorter local runs are only required to be finite. z-test thresholds give a false-alarm probability below 1e-8 per run on correct code. Needs hook H1."
ASSUMPTIONS = ["Euclidean distance callback", "FA runs whose EM diverges to non-finite values are counted inconclusive (C01 covers finiteness)"]


def targets(tier):
    return [META]


def stages(tier, seed, bins):
    rnd = random.Random(seed * 1093 + 19)
    thorough = tier == "thorough"
    streams = 30 if thorough else 8
    cases = []

    def add(**kw):
        kw.setdefault("timeout", 900)
        kw.setdefault("ticks", 50000000)
        kw["dseed"] = rnd.randrange(1 << 30)
        kw["sseed"] = rnd.randrange(1 << 30)
        if rnd.random() < 0.5:
            kw["plabel"] = 1
        cases.append(kw)

    for i in range(120 if thorough else 12):
        N = rnd.choice([10, 20, 40, 80, 150])
        td = rnd.choice([1, 2, 3])
        upd = rnd.choice([1, 3, max(1, N // 4), max(1, N // 2), 100])
        nupd = max(1, min(upd, N // 2))
        builtin = 2000 + int(0.04 * N * N)
        # "enough iterations": the built-in schedule ignores spe_num_updates; calibrated on the pinned tree, about 10 N^2 pair
        # updates are needed (N=80: 64 000 suffice, 2 256 do not). Use the built-in schedule when it provides that many.
        need = (12 * N * N) // nupd + 2000
        mi = 0 if builtin * nupd >= 12 * N * N + 2000 * nupd else need
        add(mode="spe", method="spe", speglobal=1, data="flat", q=td, N=N, D=rnd.choice([td, td + 1, td + 3]), td=td, maxiter=mi,
            speupd=upd, spetol=rnd.choice([1e-9, 1e-5]), streams=streams, offset=rnd.choice([0, 3]))
    for i in range(160 if thorough else 14):
        N = rnd.choice([30, 40, 60, 100, 150] if thorough else [30, 40, 60, 100])
        td = rnd.choice([2, 2, 3])
        builtin = 3 * (2000 + int(0.04 * N * N))
        mi = rnd.choice([0, 0, builtin, 2 * builtin, 10000, 200])
        enough = 0 if (mi != 0 and mi < builtin) else 1
        kind = rnd.choice(["flat", "flat", "swiss"])
        if kind == "swiss" and td != 3:
            enough = 0  # a curved surface flattened into 2-D cannot reproduce neighbour distances: finiteness only
        add(mode="spe", method="spe", speglobal=0, data=kind, q=td, N=N, D=3 if td <= 3 else td, td=td, maxiter=mi,
            enough=enough, k=rnd.choice([5, 8, 10]), nm=rnd.choice(["brute", "covertree"]), speupd=rnd.choice([1, 5, max(1, N // 4), max(1, N // 2)]),
            spetol=1e-5, streams=max(3, streams // 3) if mi >= 10000 or mi == 0 else streams)
    for i in range(60 if thorough else 8):
        D = rnd.choice([2, 5, 10, 30])
        add(mode="rp", method="rp", data="mix", N=rnd.choice([12, 40]), D=D, td=rnd.choice([1, 2, 5, 10]), offset=rnd.choice([0, 100]),
            streams=max(30, 4000 // (D * 2)) if thorough else max(20, 1200 // (D * 2)))
    for i in range(200 if thorough else 16):
        D = rnd.choice([3, 5, 8])
        add(mode="fa", method="fa", data=rnd.choice(["mix", "gauss"]), N=rnd.choice([20, 50, 120]), D=D, td=rnd.choice([1, 2, D - 1]),
            maxiter=rnd.choice([5, 30, 100]), faeps=rnd.choice([1e-9, 1e-5]), shift=rnd.choice([1.0, 50.0]), streams=4 if not thorough else 8,
            offset=rnd.choice([0, 5]))
    for i, c in enumerate(cases):
        c["id"] = "r%d" % (i + 1)
    return [dict(name="streams", exe=bins["meta"], cases=cases, timeout=900)]


def coverage(recs, tier):
    tags = {}
    worst = {}
    streams = 0
    sig = set()
    for st, c, r in recs:
        for t in r.get("tags", []):
            tags[t] = tags.get(t, 0) + 1
        for k, v in r.get("num", {}).items():
            if isinstance(v, (int, float)) and k not in ("ticks", "streams_run", "rp_entries"):
                worst[k] = max(worst.get(k, 0), v)
        streams += int(r.get("num", {}).get("streams_run", 0)) + (int(c["streams"]) if c["mode"] == "rp" and r.get("nontrivial") else 0)
        if r.get("nontrivial"):
            sig.add((c["mode"], c.get("speglobal"), c["N"], c["dseed"]))
    return dict(
        rule="case = one configuration (method, data, N, td, updates, iterations) run under several random streams; non-trivial = all its streams were executed and judged; "
             "distinct = distinct (method, strategy, N, data seed)",
        distinct_nontrivial=len(sig), random_streams_judged=streams, configurations_by_kind=tags, worst_observed=worst,
        samples=[" ".join("%s=%s" % kv for kv in c.items()) for st, c, r in recs[::max(1, len(recs) // 6)][:6]],
    )
