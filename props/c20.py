"""C20: the CLI writes exactly what the library computes for the options given."""
import os
import random
import sys
from vlib import build
from vlib.build import Target

ID = "C20"
LEVEL = "exploration"
TECHNIQUE = "differential monitor around the rebuilt executable: every invocation's exit status, stderr (--debug parameter echo, sanitizer reports) and output files are compared with an in-process library call on the same data and with an option->keyword table taken from the help text; executable built with ASan/UBSan (and in the repository's gcc -O2 configuration for a sample)"
LEVEL_TEXT = ("tapkee is rebuilt from src/cli/main.cpp of the working tree and run on generated files: round trips for every method name and alias with all delimiters and both transposition flags "
              "against the library result printed with full precision, --precompute twins, projection-file presence and contents, the --debug echo of every option at its help default and at non-default values, "
              "the exit status of invalid invocations and malformed inputs.")
LEVEL_NOTE = "Values are compared to 1e-5 relative (the executable prints 6 digits). Random methods (srand(time)) are only checked for shape and status. Reference = tapkee::with(params).embedUsing(matrix)."
ASSUMPTIONS = ["CLI defaults are read from its own --help output", "OMP_NUM_THREADS=1 for the executable and the reference (thread counts are C15)", "the gcc -O2 sample is compared with a gcc -O2 build of the reference"]


def targets(tier):
    main = os.path.join(build.REPO, "src", "cli", "main.cpp")
    return [Target("cli_asan", "asan", [main]), Target("cli_prod", "prod", [main]),
            Target("cliref", "asan", ["d_cliref.cpp", "embed_api.cpp", ("forms.cpp", ("-DFORM=10",))]),
            # the gcc -O2 executable is compared with a reference built the same way: both then perform bitwise the same computation
            Target("cliref_prod", "prod", ["d_cliref.cpp", "embed_api.cpp", ("forms.cpp", ("-DFORM=10",))])]


NAMES = ["locally_linear_embedding", "lle", "local_tangent_space_alignment", "ltsa", "hessian_locally_linear_embedding", "hlle",
         "multidimensional_scaling", "mds", "landmark_multidimensional_scaling", "l-mds", "isomap", "landmark_isomap", "l-isomap",
         "diffusion_map", "dm", "kernel_pca", "kpca", "pca", "random_projection", "ra", "laplacian_eigenmaps", "la",
         "locality_preserving_projections", "lpp", "neighborhood_preserving_embedding", "npe", "linear_local_tangent_space_alignment",
         "lltsa", "stochastic_proximity_embedding", "spe", "passthru", "factor_analysis", "fa", "t-stochastic_proximity_embedding", "t-sne",
         "manifold_sculpting"]
BAD = ["unknown-method", "misspelt-method", "unknown-neighbors-method", "unknown-eigen-method", "td=0", "td=-3", "k=2", "k=0", "negative-width",
       "negative-timesteps"]
GOOD = ["pca-default", "k=3", "td=1", "width-small", "timesteps=1"]
MALFORMED = ["ragged-short", "ragged-long", "ragged-last", "ragged-compensating", "ragged-random", "ragged-junk-token", "empty-file", "blank-lines", "no-final-newline", "whitespace-padding",
             "single-sample", "single-column", "missing-input-file"]


def gen(tier, seed):
    rnd = random.Random(seed * 1117 + 20)
    thorough = tier == "thorough"
    cases = []
    reps = 12 if thorough else 1
    for rep in range(reps):
        for name in NAMES:
            for variant in range(3 if thorough else 2):
                N = rnd.choice([25, 40, 60])
                c = dict(kind="roundtrip", method=name, ctx="roundtrip", N=N, D=rnd.choice([3, 4, 5]), data=rnd.choice(["gauss", "swiss"]),
                         dseed=rnd.randrange(1 << 30), delim=rnd.choice(["comma", "comma", "space", "semi", "tab", "pipe", "colon"]),
                         tin=rnd.choice([0, 0, 1]), tout=rnd.choice([0, 0, 1]), precompute=1 if variant == 1 else 0,
                         proj=rnd.choice([0, 0, 1, 1, 2, 3]), timeout=900)
                if rnd.random() < 0.6:
                    c["o_target_dimension"] = rnd.choice([1, 2, 3])
                if rnd.random() < 0.6:
                    c["o_num_neighbors"] = rnd.choice([7, 12, 15])
                if rnd.random() < 0.5:
                    c["o_neighbors_method"] = rnd.choice(["brute", "covertree"])
                if rnd.random() < 0.4:
                    c["o_gaussian_width"] = rnd.choice([2.5, 10.0])
                if rnd.random() < 0.3:
                    c["o_timesteps"] = rnd.choice([2, 3])
                if rnd.random() < 0.3:
                    c["o_eigenshift"] = rnd.choice([1e-6, 1e-3])
                if name in ("manifold_sculpting", "stochastic_proximity_embedding", "spe", "fa", "factor_analysis"):
                    c["o_max_iters"] = rnd.choice([3, 20])
                    c["N"] = 20
                if name in ("t-sne", "t-stochastic_proximity_embedding"):
                    c["N"] = 24
                    c["o_sne_perplexity"] = 5
                    c["o_target_dimension"] = 2
                if name in ("hlle", "hessian_locally_linear_embedding"):
                    c["o_num_neighbors"] = 15
                    c["o_target_dimension"] = rnd.choice([1, 2])
                if rnd.random() < 0.45:
                    c["lexical"] = rnd.choice(["plus", "space", "padded", "exp"])
                if rnd.random() < 0.15:
                    c["nofinalnl"] = 1
                if rnd.random() < 0.15:
                    c["crlf"] = 1
                if rnd.random() < 0.15:
                    c["trailing"] = 1
                cases.append(c)
    for i in range(300 if thorough else 24):
        cases.append(dict(kind="wiring", ctx="wiring", N=12, D=3, dseed=rnd.randrange(1 << 30), wseed=rnd.randrange(1 << 30), timeout=300))
    for rep in range(4 if thorough else 1):
        for w in ["bad:" + b for b in BAD] + ["good:" + g for g in GOOD]:
            cases.append(dict(kind="exit", ctx="exit", which=w, N=rnd.choice([15, 30]), D=3, dseed=rnd.randrange(1 << 30), timeout=300))
        for w in MALFORMED + ["ragged-compensating", "ragged-random", "ragged-random"]:
            cases.append(dict(kind="malformed", ctx="malformed", which=w, N=rnd.choice([8, 20]), D=rnd.choice([2, 4]), dseed=rnd.randrange(1 << 30),
                              method=rnd.choice(["pca", "mds", "passthru"]), timeout=300))
    for i, c in enumerate(cases):
        c["id"] = "c%d" % (i + 1)
    return cases


def stages(tier, seed, bins):
    cases = gen(tier, seed)
    driver = [sys.executable, os.path.join(os.path.dirname(os.path.dirname(os.path.abspath(__file__))), "harness", "cli_driver.py")]
    tmp = os.path.join(build.BUILD, "run", "cli_tmp")
    os.makedirs(tmp, exist_ok=True)
    env_asan = {"CLI_BIN": bins["cli_asan"], "CLIREF_BIN": bins["cliref"], "CLI_TMP": tmp,
                "ASAN_OPTIONS": "detect_leaks=0:abort_on_error=0:exitcode=86:symbolize=1", "UBSAN_OPTIONS": "print_stacktrace=1:halt_on_error=1:exitcode=87"}
    env_prod = dict(env_asan, CLI_BIN=bins["cli_prod"], CLIREF_BIN=bins["cliref_prod"])
    sample = [dict(c, id="g" + c["id"]) for c in cases if c["kind"] in ("roundtrip", "exit")][::3]
    return [dict(name="asan", exe=driver, cases=cases, timeout=900, env=env_asan),
            dict(name="prod", exe=driver, cases=sample, timeout=900, env=env_prod)]


def coverage(recs, tier):
    tags = {}
    opts = 0
    worst = 0.0
    sig = set()
    kinds = {}
    for st, c, r in recs:
        kinds[c["kind"]] = kinds.get(c["kind"], 0) + 1
        for t in r.get("tags", []):
            tags[t] = tags.get(t, 0) + 1
        opts += int(r.get("num", {}).get("options_checked", 0))
        v = r.get("num", {}).get("max_rel_dev", 0)
        if isinstance(v, (int, float)):
            worst = max(worst, v)
        if r.get("nontrivial"):
            sig.add((st["name"], c["kind"], c.get("method", c.get("which", c.get("wseed")))))
    return dict(
        rule="case = one invocation scenario of the rebuilt executable (round trip of a method name with delimiter/transposition/precompute/projection-file variants, option-echo probe, "
             "invalid invocation, malformed input); non-trivial = the executable was run and judged; distinct = distinct (build, kind, method/scenario)",
        distinct_nontrivial=len(sig), invocation_scenarios_by_kind=kinds, option_values_checked_against_echo=opts,
        worst_relative_deviation_of_written_values=worst, outcomes_by_tag=tags,
        samples=[" ".join("%s=%s" % kv for kv in c.items()) for st, c, r in recs[::max(1, len(recs) // 6)][:6]],
    )
