"""Shared pieces of the C05-C11 property modules (one driver binary: d_spectral.cpp)."""
import random
from vlib.build import Target

SPECTRAL = Target("spectral", "asan", ["d_spectral.cpp", "embed_api.cpp"])


def base(rnd, **kw):
    c = dict(dseed=rnd.randrange(1 << 30), srand=rnd.randrange(1 << 30), shuffle=rnd.randrange(1 << 30), timeout=300,
             ticks=50000000)
    c.update(kw)
    # half of the cases label the samples by a random permutation instead of 0..N-1 (positions != values)
    if c.get("mode") not in ("lmsel",) and rnd.random() < 0.5:
        c["plabel"] = 1
    elif c.get("mode") not in ("lmsel",) and rnd.random() < 0.4:
        # the library's own eigen_*_callback types over a matrix with more columns than are embedded (a shuffled subset of the
        # columns is the training range); only takes effect for the linear kernel / Euclidean distance
        c["ecb"] = 1
    return c


def finish(cases, prefix):
    for i, c in enumerate(cases):
        c["id"] = "%s%d" % (prefix, i + 1)
    return cases


def generic_coverage(recs, rule, extra=None):
    tags = {}
    worst = {}
    sig = set()
    inconc = 0
    largest = 0
    for st, c, r in recs:
        for t in r.get("tags", []):
            tags[t] = tags.get(t, 0) + 1
        for k, v in r.get("num", {}).items():
            if isinstance(v, (int, float)) and k not in ("ticks", "condB"):
                worst[k] = max(worst.get(k, 0), v)
        if r.get("inconclusive"):
            inconc += 1
        if r.get("nontrivial") and not r.get("inconclusive") and "N" in c:
            largest = max(largest, int(c["N"]))
        if r.get("nontrivial"):
            sig.add(tuple(sorted((k, str(v)) for k, v in c.items() if k not in ("id", "timeout", "ticks", "srand", "shuffle"))))
    d = dict(rule=rule, distinct_nontrivial=len(sig), cases_by_tag=tags, worst_observed=worst, inconclusive_cases=inconc, largest_N_judged=largest,
             samples=[" ".join("%s=%s" % kv for kv in c.items()) for st, c, r in recs[::max(1, len(recs) // 6)][:6]])
    if extra:
        d.update(extra)
    return d
