"""C01: every embed call returns N x target_dimension finite rows or a documented error."""
import random
from vlib.build import Target

ID = "C01"
LEVEL = "exploration"
TECHNIQUE = "public-API stress under ASan+UBSan+libstdc++/Eigen assertions with typed exception classification, tick-budget (logical step) and watchdog hang detection, one process death = one case"
LEVEL_TEXT = ("A stratified, seeded product of method x neighbour search x eigensolver x N x target_dimension x k x data kind x other keywords is pushed through "
              "tapkee::embed in a sanitized build with Eigen and libstdc++ assertions on. Shape, exception type, finiteness on interior-generic cases, process survival and "
              "termination (tick hook + watchdog) are observed for every call. Exploration: it speaks for the cells visited, which the evidence enumerates.")
LEVEL_NOTE = ("ASan/UBSan see adjacent out-of-bounds accesses and UB on executed paths only; in-bounds-but-wrong indices are the business of the value oracles (C02-C19). "
              "'Interior-generic' is decided by the generator from the rules in DESIGN.md section 3 C01.")
ASSUMPTIONS = ["interior-generic rule: Gaussian/swiss-roll/S-curve data, td <= min(D, N-1), method-specific minimum k, landmark count > td, every numeric keyword strictly inside its range",
               "hang = tick budget exhausted (hook H2) or watchdog firing twice (second time with 4x budget)"]

NB = {"klle", "npe", "kltsa", "lltsa", "hlle", "le", "lpp", "isomap", "lisomap", "ms"}
EIG = {"klle", "kltsa", "hlle", "dm", "mds", "lmds", "isomap", "lisomap", "pca", "kpca"}
GENEIG = {"le", "lpp", "npe", "lltsa"}
ALL = ["klle", "npe", "kltsa", "lltsa", "hlle", "le", "lpp", "dm", "isomap", "lisomap", "mds", "lmds", "spe", "kpca", "pca",
       "rp", "fa", "tsne", "ms", "passthru"]
GEN_DATA = ["gauss", "swiss", "scurve"]
HOSTILE = ["dup", "lattice", "collinear", "constant", "constfirst", "wide", "offset", "multiscale"]


def targets(tier):
    return [Target("c01", "asan", ["d_c01.cpp", "embed_api.cpp"])]


def bucket_td(td, c):
    N, D, k = c["N"], c["D"], c.get("k", 0)
    if td in (1, 2, 3):
        return str(td)
    if k and td in (k - 1, k, k + 1):
        return "k%+d" % (td - k)
    if td in (D, D + 1):
        return "D%+d" % (td - D)
    if td >= N - 2:
        return "N%+d" % (td - N)
    return "mid"


def make_case(rnd, m, nm, em, thorough, hostile=None):
    N = rnd.choice([1, 2, 3, 4, 5, 6, 8, 12, 20, 33, 64, 120])
    if m == "tsne" and N > 64:
        N = rnd.choice([12, 20, 33, 64])
    if m == "ms" and N > 33:
        N = rnd.choice([8, 12, 20, 33])
    if m in ("spe", "fa") and N > 64:
        N = 64
    if hostile is None:
        hostile = rnd.random() < 0.45
    kind = rnd.choice(HOSTILE) if hostile else rnd.choice(GEN_DATA)
    D = rnd.choice([1, 2, 3, 5, 8])
    if kind in ("swiss", "scurve"):
        D = rnd.choice([3, 3, 5])
    c = dict(method=m, N=N, D=D, data=kind, dseed=rnd.randrange(1 << 30), srand=rnd.randrange(1 << 30),
             shuffle=rnd.randrange(1 << 30))
    interior = True
    if m in NB or (m == "spe"):
        c["nm"] = nm
        ks = [3, 4, 5, max(3, N // 2), N - 2, N - 1]
        ks = [k for k in ks if 3 <= k < N] or [3]
        k = rnd.choice(ks)
        if rnd.random() < 0.03:
            k = rnd.choice([2, N, N + 1])  # invalid on purpose
        c["k"] = k
        c["kb"] = "3" if k == 3 else "4-5" if k in (4, 5) else "N-1" if k == N - 1 else "N-2" if k == N - 2 else "mid"
        if rnd.random() < 0.15:
            c["conn"] = 0
    if m in EIG or m in GENEIG:
        c["em"] = em
    k = c.get("k", 0)
    # landmark ratio
    L = None
    if m in ("lmds", "lisomap"):
        choice = rnd.choice(["min", "mid", "mid", "one", "third"])
        if N >= 3 and choice == "min":
            ratio = 3.0 / N
            interior = False
        elif choice == "one":
            ratio = 1.0
            interior = False
        elif choice == "third":
            ratio = 0.34
        else:
            ratio = rnd.choice([0.5, 0.7, 0.9])
        c["ratio"] = repr(ratio)
        L = int(N * ratio)
    # target dimension
    cands = [1, 2, 3, D, D + 1, N - 2, N - 1]
    if k:
        cands += [k - 1, k, k + 1]
    if L:
        cands += [L - 1, L, L + 1]
    cands = [t for t in cands if 1 <= t < N] or [1]
    td = rnd.choice(cands)
    if rnd.random() < 0.55:
        td = rnd.choice([t for t in (1, 2, 3) if t < N] or [1])
    if rnd.random() < 0.02:
        td = rnd.choice([0, N, N + 3])  # invalid on purpose
    if m == "hlle" and 8 < td < N:
        # the Hessian estimator has td(td+1)/2 columns per neighbourhood: O(N k td^4) work, hours for td ~ 100 (the watchdog
        # would then report a slow but terminating call as a hang). td > k is no protection: on data whose k-NN graph is not
        # connected (coincident samples) the connectivity check doubles k up to N-1 first and td = N-2 then passes validation.
        td = rnd.choice([4, 5, 8])
    c["td"] = td
    c["tdb"] = bucket_td(td, c)
    # other keywords
    if m in ("le", "lpp", "dm"):
        w = rnd.choice([0.5, 1.0, 10.0, 100.0, 1e-3, 1e6])
        if w in (1e-3, 1e6):
            interior = False
        # a width far below the squared neighbour distances makes every heat weight underflow (the data are numerically
        # disconnected: the limit width -> 0+), which is not "strictly inside the range" for that data set
        if kind == "swiss" and w < 100.0:
            interior = False
        # (Gaussian clouds: squared distances grow with the dimension, up to ~ 10 D; at width 1 in 5 dimensions every weight of a
        # 4-sample set was below 1e-16 of the diagonal, the trivial eigenvalue four-fold and psi_0 arbitrary - thorough tier)
        if kind in ("gauss", "scurve") and w < max(1.0, D):
            interior = False
        c["width"] = w
    if m == "dm":
        c["timesteps"] = rnd.choice([1, 2, 3, 10])
    if m in ("klle", "npe"):
        ks_ = rnd.choice([1e-3, 1e-3, 1e-6, 0.0, 1.0])
        if ks_ in (0.0,):
            interior = False
        c["kshift"] = ks_
    if m in ("klle", "npe", "kltsa", "lltsa"):
        ns = rnd.choice([1e-9, 1e-9, 1e-6, 0.0])
        if ns == 0.0:
            interior = False
        c["nshift"] = ns
    if m in ("klle", "kltsa", "hlle", "kpca", "npe", "lltsa") and rnd.random() < 0.25:
        c["kernel"] = rnd.choice(["rbf", "poly"])
        c["gamma"] = rnd.choice([0.1, 0.5])
    if m == "spe":
        g = rnd.choice([1, 1, 0])
        c["speglobal"] = g
        c["maxiter"] = rnd.choice([0, 50, 300])
        if c["maxiter"] == 0 and N > 33:
            c["maxiter"] = 300
        c["speupd"] = rnd.choice([1, 3, max(1, N // 2), N, 100])
        c["spetol"] = rnd.choice([1e-9, 1e-5, 1e-2])
    if m == "fa":
        c["maxiter"] = rnd.choice([1, 10, 100])
        fe = rnd.choice([1e-9, 1e-5, 1e-2, 0.0])
        if fe == 0.0:
            interior = False
        c["faeps"] = fe
    if m == "tsne":
        maxp = (N - 1) / 3.0
        p = rnd.choice([maxp, maxp * 0.5, maxp * 0.9, 1.5, 2.0])
        p = min(p, maxp)
        if p >= maxp or p <= 1.0:
            interior = False
        c["perp"] = "%.8g" % p
        th = rnd.choice([0.5, 0.5, 0.2, 1.0, 0.0])
        if th == 0.0:
            interior = False
        c["theta"] = th
    if m == "ms":
        c["maxiter"] = rnd.choice([1, 2, 3])
        sq = rnd.choice([0.99, 0.9, 0.5, 0.0])
        if sq == 0.0:
            interior = False
        c["squish"] = sq
    if kind == "dup":
        base = (k or 3) + 1
        c["copies"] = max(1, rnd.choice([base - 2, base - 1, base, base + 1, base + 2, 2]))
    if kind == "lattice":
        c["ldims"] = min(D, rnd.choice([1, 2, 3]))
    if kind == "constfirst":
        c["cf"] = min(D, max(1, td if td <= D else 1))
    if kind == "multiscale":
        c["decades"] = rnd.choice([6, 12, 30])
    if kind == "wide":
        c["decades"] = 6
    # interior-generic claim
    rank = min(D, N - 1)
    gen = (kind in GEN_DATA) and interior and 1 <= td <= rank and c.get("kernel") is None
    if m in NB and not (3 <= k < N):
        gen = False
    if m in ("kltsa", "lltsa"):
        gen = gen and td < k
    if m == "hlle":
        gen = gen and k >= 1 + td + td * (td + 1) // 2 + 1
    if m in ("npe", "lltsa", "lpp"):
        gen = gen and N > D + 1 and td <= D
    if m in ("isomap", "lisomap"):
        gen = gen and td <= 2 and D >= 3 and N >= 12
    if m in ("lmds", "lisomap"):
        gen = gen and L is not None and td < L and td <= min(D, L - 1)
    if m == "dm":
        gen = gen and td <= N - 2
    if m == "fa":
        gen = gen and td < D and N > D
    if m == "tsne":
        gen = gen and td == 2 and N >= 8
    if m == "ms":
        gen = gen and td < D
    if m == "spe":
        gen = gen and c["maxiter"] != 0 or (gen and c.get("speglobal") == 1)
    if em == "randomized" and m in EIG:
        # the randomized solver is specified for inputs of rank <= td only; no finiteness claim
        gen = False
    if m in GENEIG and em == "randomized":
        gen = False
    c["generic"] = 1 if gen else 0
    big = N >= 64
    c["timeout"] = 120 if (m in ("tsne", "ms", "spe") or big) else 60
    c["ticks"] = 20000000
    return c


def stages(tier, seed, bins):
    rnd = random.Random(seed * 1033 + 1)
    thorough = tier == "thorough"
    cases = []
    triples = []
    for m in ALL:
        nms = ["brute", "vptree", "covertree"] if (m in NB or m == "spe") else ["-"]
        ems = ["dense", "randomized"] if (m in EIG or m in GENEIG) else ["-"]
        for nm in nms:
            for em in ems:
                triples.append((m, nm, em))
    per = 170 if thorough else 48
    for (m, nm, em) in triples:
        for i in range(per):
            c = make_case(rnd, m, nm, em, thorough)
            cases.append(c)
        # guaranteed interior-generic share
        for i in range(per // 4):
            for attempt in range(30):
                c = make_case(rnd, m, nm, em, thorough, hostile=False)
                if c["generic"]:
                    break
            cases.append(c)
    rnd.shuffle(cases)
    for i, c in enumerate(cases):
        c["id"] = "a%d" % (i + 1)
    return [dict(name="embed", exe=bins["c01"], cases=cases, timeout=120)]


def coverage(recs, tier):
    outcomes = {}
    cells = set()
    cellcount = {}
    generic_finite = 0
    generic_total = 0
    datacells = set()
    tdk = set()
    maxticks = 0
    for st, c, r in recs:
        o = r.get("str", {}).get("outcome", r.get("_status", "?"))
        key = "%s:%s" % (c["method"], o)
        outcomes[key] = outcomes.get(key, 0) + 1
        maxticks = max(maxticks, int(r.get("num", {}).get("ticks", 0)))
        for t in r.get("tags", []):
            if t.startswith("cell:") and r.get("nontrivial"):
                cells.add(t)
                cellcount[t] = cellcount.get(t, 0) + 1
            elif t.startswith("data:"):
                datacells.add(t)
            elif t.startswith("tdk:"):
                tdk.add(t)
            elif t.startswith("generic:"):
                generic_total += 1
                if r.get("str", {}).get("finite") == "1":
                    generic_finite += 1
    return dict(
        rule="case = one tapkee::embed call; cells = (method, neighbour method, eigensolver) x data kind x (target_dimension bucket, k bucket); a case is non-trivial when the call "
             "got past validation (at least one callback evaluation); distinct_nontrivial = number of distinct non-trivial (method, data kind, td bucket, k bucket, neighbour, eigen) cells",
        distinct_nontrivial=len(set((c["method"], c["data"], c.get("tdb"), c.get("kb"), c.get("nm"), c.get("em"))
                                    for st, c, r in recs if r.get("nontrivial"))),
        backend_triples_reached=len(cells), min_cases_per_backend_triple=min(cellcount.values()) if cellcount else 0,
        method_x_data_cells=len(datacells), method_x_td_x_k_buckets=len(tdk),
        outcomes_by_method=outcomes, interior_generic_cases=generic_total, interior_generic_all_finite=generic_finite,
        max_ticks_in_one_call=maxticks,
        samples=[" ".join("%s=%s" % kv for kv in c.items()) for st, c, r in recs[::max(1, len(recs) // 8)][:8]],
    )
