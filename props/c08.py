"""C08: KLLE, KLTSA and HLLE minimise their alignment cost over centred orthonormal Y."""
import random
from props._spectral import SPECTRAL, base, finish, generic_coverage

ID = "C08"
LEVEL = "exploration"
TECHNIQUE = "alignment matrices from the real routines compared entrywise with an independently assembled (I-W)^T(I-W) / LTSA matrix; embedding checked for orthonormality, eigen-residual, minimal alignment cost and centring against a dense reference spectrum; flat-data affinity oracle; under ASan/UBSan with Eigen assertions"
LEVEL_TEXT = ("For each generated manifold-like data set the neighbour lists the library uses are recomputed, the alignment matrix is built twice (real routine, independent reference), and the "
              "public-API embedding is checked to be orthonormal, to consist of eigenvectors, to attain the sum of the td smallest non-trivial eigenvalues and to be centred; on flat data "
              "LTSA/HLLE columns must be affine in the intrinsic coordinates and HLLE's matrix must annihilate affine functions and penalise quadratics.")
LEVEL_NOTE = "HLLE's estimator depends on eigenvector signs, so its matrix is checked structurally (symmetric PSD, M1=0, flat-data null space) rather than entrywise. Dense eigensolver only."
ASSUMPTIONS = ["tie-free data so that the recomputed neighbour lists equal the ones used inside embed", "dense eigensolver (the property does not quantify over eigensolvers)"]


def targets(tier):
    return [SPECTRAL]


def stages(tier, seed, bins):
    rnd = random.Random(seed * 1061 + 8)
    n = 4000 if tier == "thorough" else 240
    cases = []
    for i in range(n):
        m = rnd.choice(["klle", "kltsa", "hlle"])
        N = rnd.choice([20, 30, 50, 80, 120] + ([200, 250] if tier == "thorough" else []))
        td = rnd.choice([1, 2, 2, 3, 4])
        kind = rnd.choice(["swiss", "scurve", "sphere", "flat", "flat", "gauss"])
        D = 3 if kind in ("swiss", "scurve", "sphere") else rnd.choice([3, 4, 6])
        td = min(td, D)
        kmin = {"klle": 3, "kltsa": td + 2, "hlle": 1 + td + td * (td + 1) // 2 + 1}[m]
        k = rnd.choice([kmin, kmin + 1, kmin + 3, 2 * kmin, N - 1, N // 2])
        k = max(3, max(kmin, min(k, N - 1)))
        c = base(rnd, mode="lle", method=m, N=N, D=D, td=td, k=k, data=kind, nm=rnd.choice(["brute", "vptree", "covertree"]),
                 em="dense", jitter=0.01)
        if kind == "flat":
            c["q"] = td if rnd.random() < 0.8 else min(D, td + 1)
            c["offset"] = rnd.choice([0, 1, 5])
        if m != "hlle" and rnd.random() < 0.3:
            c["kernel"] = "rbf"
            c["gamma"] = rnd.choice([0.05, 0.3])
        if m == "klle":
            c["kshift"] = rnd.choice([1e-3, 1e-3, 1e-2, 1e-5])
        if m in ("klle", "kltsa"):
            c["nshift"] = rnd.choice([1e-9, 1e-9, 1e-6, 1e-3, 0.1])
        # the same data in another unit (the cost is scale free: every clause must still hold), and very wide RBF kernels
        if rnd.random() < 0.35 and c.get("kernel") is None:
            c["xscale"] = rnd.choice([1e-6, 1e-5, 1e-3, 1e2, 1e3])
        if c.get("kernel") == "rbf" and rnd.random() < 0.3:
            c["gamma"] = rnd.choice([1e-5, 1e-7])
        cases.append(c)
    # sizes beyond any "small problem" switch an implementation may have (size-gated code paths, e.g. `if (N > 1000)`)
    for N in ([1100] if tier != "thorough" else [1001, 1100, 1500]):
        for m in ["klle", "kltsa", "hlle"]:
            cases.append(base(rnd, mode="lle", method=m, N=N, D=3, td=2, k=10, data="swiss", nm="covertree", em="dense", jitter=0.01, timeout=1800, ticks=0))
    return [dict(name="lle", exe=bins["spectral"], cases=finish(cases, "l"), timeout=300)]


def coverage(recs, tier):
    return generic_coverage(recs, "case = one KLLE/KLTSA/HLLE call (data kind incl. flat patches, N, k from the method's minimum to N-1, td 1..4, kernel, neighbour method); "
                                  "non-trivial = embedding compared with the reference spectrum of the alignment matrix")
