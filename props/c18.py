"""C18: Barnes-Hut quadtree stores each point once; force sums converge to exact."""
import random
from vlib.build import Target

ID = "C18"
LEVEL = "exploration"
TECHNIQUE = "white-box structural walk of the live quadtree (cell membership, masses, centres of mass) and O(N^2) reference force sums over a theta grid, under ASan/UBSan with a tick budget on insert()"
LEVEL_TEXT = ("Every generated 2-D point set is inserted in 10 orders; after each build the tree is walked: every index stored once or coincident with a stored point, "
              "root mass N, every cell's mass and centre of mass equal to count and mean of the points routed into it, getAllIndices consistent; "
              "theta=0 forces and normalisation sums are compared with exact all-pairs sums and theta in {2,1,0.5,0.1,0.01} against an error envelope.")
LEVEL_NOTE = "A boundary point is counted in the one child it was routed to (first fit); envelope min(1.5, 2 theta^1.5) on the aggregated relative error is the finite restatement of 'vanishes as theta -> 0'."
ASSUMPTIONS = ["private members read through -fno-access-control", "forces are only compared on point sets without coincident points, as the property states"]
TSNE = Target("tsne", "asan", [("d_tsne.cpp", ("-fno-access-control",)), "embed_api.cpp"])


def targets(tier):
    return [TSNE]


def stages(tier, seed, bins):
    rnd = random.Random(seed * 1021 + 18)
    thorough = tier == "thorough"
    cases = []
    total = 6000 if thorough else 300
    while len(cases) < total:
        kind = rnd.choice(["gauss", "clustered", "collinear", "coincident", "dyadic", "wide", "nearpairs", "farline", "thin"])
        N = rnd.choice([1, 2, 3, 4, 5, 8, 16, 33, 64, 100, 200, 400])
        if rnd.random() < (0.05 if thorough else 0.02):
            N = rnd.choice([1000, 2000])
        c = dict(mode="qt", pts=kind, N=N, pseed=rnd.randrange(1 << 30), oseed=rnd.randrange(1 << 30), orders=10)
        if kind == "gauss":
            c["scale"] = rnd.choice([1e-4, 1, 1, 30, 1e6])
        if kind == "collinear":
            c["axis"] = rnd.choice([0, 1])
        if kind == "coincident":
            c["copies"] = rnd.choice([2, 3, 10])
        if kind == "farline":
            c["far"] = rnd.choice([1e6, 1e9, 1e12, 3e11])
        if kind == "wide":
            c["decades"] = rnd.choice([3, 6, 6])
        c["id"] = "q%d" % (len(cases) + 1)
        c["timeout"] = 600
        c["ticks"] = 50000000
        cases.append(c)
    return [dict(name="qt", exe=bins["tsne"], cases=cases, timeout=600)]


def coverage(recs, tier):
    cells = forces = 0
    tags = {}
    sig = set()
    errs = {}
    depth = 0
    for st, c, r in recs:
        num = r.get("num", {})
        cells += int(num.get("cells", 0))
        forces += int(num.get("force_evals", 0))
        depth = max(depth, int(num.get("depth", 0)))
        for k, v in num.items():
            if k.startswith("force_err_theta") or k.startswith("sumQ_err_theta"):
                if isinstance(v, (int, float)):
                    errs[k] = max(errs.get(k, 0), v)
        for t in r.get("tags", []):
            tags[t] = tags.get(t, 0) + 1
        if r.get("nontrivial"):
            sig.add((c["pts"], c["N"], c["pseed"]))
    return dict(
        rule="case = one 2-D point set (generic, clustered, collinear incl. axis-parallel, coincident, dyadic cell boundaries in an explicit box, 12 decades wide, "
             "near-coincident pairs, axis-parallel lines up to 1e12 from the origin, clusters a few ulps thin) built in 10 insertion orders; non-trivial = N>=2; distinct = distinct (kind, N, seed)",
        distinct_nontrivial=len(sig), point_sets=len(recs), trees_built=10 * len(recs), cells_checked=cells, force_field_evaluations=forces,
        max_tree_depth=depth, max_relative_error_by_theta=errs, cases_by_kind=tags,
        samples=[" ".join("%s=%s" % kv for kv in c.items()) for st, c, r in recs[::max(1, len(recs) // 6)][:6]],
    )
