#!/usr/bin/env python3
"""Writes MANIFEST.json from the property modules that exist (props/cNN.py) + the not-applicable table."""
import importlib, json, os, sys
VERIF = os.path.dirname(os.path.abspath(__file__))
sys.path.insert(0, VERIF)
NA = {}
checks = []
na = []
for i in range(1, 21):
    pid = "C%02d" % i
    try:
        mod = importlib.import_module("props.%s" % pid.lower())
    except ImportError:
        na.append(dict(property_id=pid, reason=NA.get(pid, "check not built yet in this round (planned in DESIGN.md section 3); not claimed")))
        continue
    checks.append(dict(
        property_id=pid,
        quick_cmd="python3 check.py %s --tier quick" % pid,
        thorough_cmd="python3 check.py %s --tier thorough" % pid,
        evidence_file="evidence/%s.json" % pid,
        replay_cmd_template="python3 check.py %s --replay {path}" % pid,
        engine="runtime-monitors",
        level_claimed=dict(category=getattr(mod, "LEVEL", "exploration"), text=mod.LEVEL_TEXT, design_ref="DESIGN.md section 3, %s" % pid),
        level_note=mod.LEVEL_NOTE,
        technique=mod.TECHNIQUE,
    ))
hooks_commits = []
try:
    import subprocess
    out = subprocess.run(["git", "-C", "/repo", "log", "--format=%h %s"], stdout=subprocess.PIPE).stdout.decode()
    hooks_commits = [l.split()[0] for l in out.splitlines() if l.split(" ", 1)[1].startswith("verif hooks")]
except Exception:
    pass
m = dict(
    version=1,
    setup_cmd="python3 check.py build-all",
    hooks=dict(guard="TAPKEE_VERIF",
               enable="-DTAPKEE_VERIF on every harness translation unit (vlib/build.py DEFS); headers are used directly from /repo/include",
               baseline_off_cmd="cmake --build /repo/_build && ctest --test-dir /repo/_build -j8 --timeout 900",
               source_commits=hooks_commits, add_only=True),
    engines=[dict(name="runtime-monitors", path="check.py",
                  serves_properties=[c["property_id"] for c in checks],
                  kind_free_text="seeded workloads executed against the real headers under ASan+UBSan+libstdc++/Eigen assertions, TSan+Archer, "
                                 "lock-step reference models, independent numerical references and metamorphic pairs; sharded with per-case crash isolation")],
    checks=checks,
    not_applicable=na,
    notes="All checks rebuild their drivers from $VERIF_REPO (default /repo) through a cache keyed by the preprocessed source. "
          "Exit 0 held / 1 violation not in known_findings.json / 2 harness failure.",
)
json.dump(m, open(os.path.join(VERIF, "MANIFEST.json"), "w"), indent=1)
print("checks:", [c["property_id"] for c in checks])
