"""Sharded execution of driver binaries with per-case crash isolation.

Protocol: `driver <casefile> <outfile>`; the driver appends `BEGIN <id>` before and
`RES <id> <json>` after each case (flushed). If the process dies, the case in flight is
the culprit ("ASan cannot count": one process death = one case); its sanitizer log is
kept as the witness and the shard is restarted after it.
"""
import json
import os
import re
import shutil
import signal
import subprocess
import threading
import time
from concurrent.futures import ThreadPoolExecutor

from . import build

SAN_ENV = {
    "ASAN_OPTIONS": "abort_on_error=0:exitcode=86:detect_leaks=0:handle_abort=1:handle_sigfpe=1:"
                    "allocator_may_return_null=0:max_allocation_size_mb=8192:detect_stack_use_after_return=0:"
                    "symbolize=1:print_summary=1",
    "UBSAN_OPTIONS": "print_stacktrace=1:halt_on_error=1:exitcode=87",
    "TSAN_OPTIONS": "ignore_noninstrumented_modules=1:halt_on_error=0:exitcode=0:second_deadlock_stack=1",
    "ASAN_SYMBOLIZER_PATH": "/usr/bin/llvm-symbolizer-14",
}


def case_line(c):
    return " ".join("%s=%s" % (k, v) for k, v in c.items())


def _parse_out(path):
    begun, res = [], {}
    ticks = {}
    if not os.path.exists(path):
        return begun, res, ticks
    with open(path, errors="replace") as f:
        for line in f:
            if line.startswith("BEGIN "):
                begun.append(line.split()[1])
            elif line.startswith("RES "):
                _, cid, js = line.rstrip("\n").split(" ", 2)
                try:
                    res[cid] = json.loads(js)
                except ValueError:
                    res[cid] = {"viol": [{"key": "harness|bad-json", "detail": js[:200]}], "inconclusive": [],
                                "nontrivial": False, "num": {}, "str": {}, "tags": []}
            elif line.startswith("TICKS "):
                p = line.split()
                ticks[p[1]] = (p[2], p[3])
    return begun, res, ticks


FRAME_RE = re.compile(r"^\s*#(\d+) 0x[0-9a-f]+ in (.+?) (/\S+?):(\d+)")
FRAME_NOLINE_RE = re.compile(r"^\s*#(\d+) 0x[0-9a-f]+ in (.+?) \(")


def short_fn(fn):
    """Strips template arguments / parameter lists from a demangled function name."""
    out, depth = [], 0
    for ch in fn:
        if ch in "<(":
            depth += 1
        elif ch in ">)":
            depth -= 1
        elif depth == 0:
            out.append(ch)
    s = "".join(out).strip()
    s = s.replace("tapkee::tapkee_internal::", "").replace("tapkee::", "")
    s = re.sub(r"\s+", " ", s)
    # drop return type if any
    s = s.split(" ")[-1] if " " in s and not s.startswith("operator") else s
    return s


_FUNC_HEAD = re.compile(r"^[A-Za-z_][^;]*?\b([A-Za-z_]\w*)\s*\([^;]*$")


def enclosing_function(path, line):
    """Name of the function whose (non-indented) head precedes `line` in `path` (for OpenMP outlined frames)."""
    try:
        with open(path, errors="replace") as f:
            lines = f.readlines()
    except OSError:
        return None
    for i in range(min(line, len(lines)) - 1, -1, -1):
        ln = lines[i]
        if ln[:1] in " \t#/{}*\n" or ln.startswith("template") or ln.startswith("namespace"):
            continue
        m = _FUNC_HEAD.match(ln.rstrip())
        if m:
            return m.group(1)
    return None


def repo_frame_name(fn, path, line):
    name = short_fn(fn)
    if ".omp_outlined" in name or name.startswith("."):
        enc = enclosing_function(path, int(line))
        if enc:
            return enc + "[omp]"
    return name


def parse_sanitizer_log(text, repo):
    """Returns dict(kind, frame, file) for the first report in a sanitizer/abort log."""
    kind = None
    m = re.search(r"ERROR: AddressSanitizer: (\S+)", text)
    if m:
        kind = "asan:" + m.group(1)
    m2 = re.search(r"runtime error: (.*)", text)
    if m2 and (not kind or text.find("runtime error:") < text.find("ERROR: AddressSanitizer")):
        msg = m2.group(1)
        msg = re.sub(r"0x[0-9a-f]+", "ADDR", msg)
        msg = re.sub(r"-?\d+(\.\d+)?(e[+-]?\d+)?", "N", msg)
        kind = "ubsan:" + msg[:60].strip().replace(" ", "_")
    assertion = None
    m3 = re.search(r"Assertion [`'](.+?)' failed", text)
    if m3:
        assertion = m3.group(1)
        if kind in (None, "asan:ABRT"):
            src = "glibcxx" if "/c++/" in text[max(0, m3.start() - 300):m3.start()] else \
                  ("eigen" if "/Eigen/" in text[max(0, m3.start() - 400):m3.start()] or "eigen3" in text[max(0, m3.start() - 400):m3.start()] else "assert")
            kind = "assert:%s:%s" % (src, re.sub(r"\s+", "", assertion)[:50])
    if "terminate called" in text and kind in (None, "asan:ABRT"):
        mt = re.search(r"terminate called after throwing an instance of '(.+?)'", text)
        kind = "terminate:" + (mt.group(1) if mt else "?")
    frame, ffile = None, None
    inc = os.path.join(repo, "include")
    cli = os.path.join(repo, "src")
    first_user = None
    for line in text.splitlines():
        fm = FRAME_RE.match(line)
        if not fm:
            continue
        path = os.path.normpath(fm.group(3))
        if path.startswith(inc) or path.startswith(cli):
            frame = repo_frame_name(fm.group(2), path, fm.group(4))
            ffile = os.path.relpath(path, repo)
            break
        if first_user is None and "/verif/harness" in path:
            first_user = short_fn(fm.group(2))
    return {"kind": kind or "death", "frame": frame or ("harness:" + first_user if first_user else "?"),
            "file": ffile or "?", "assertion": assertion}


class ShardRunner:
    def __init__(self, exe, cases, workdir, env=None, jobs=16, timeout=120, repo=None, tag="s", per_process=False):
        self.exe = exe
        self.cases = cases
        self.workdir = workdir
        self.env = dict(os.environ)
        self.env.update(SAN_ENV)
        if env:
            self.env.update(env)
        self.jobs = max(1, min(jobs, len(cases))) if cases else 1
        self.per_process = per_process  # one driver process per case (TSan reports are attributed per process)
        self.timeout = timeout
        self.repo = repo or build.REPO
        self.tag = tag
        os.makedirs(workdir, exist_ok=True)

    def _run_list(self, shard_id, cases, timeout_mult=1):
        """Runs cases sequentially in (restarted) driver processes. Returns {id: record}."""
        records = {}
        remaining = list(cases)
        attempt = 0
        while remaining:
            attempt += 1
            base = os.path.join(self.workdir, "%s%d_%d" % (self.tag, shard_id, attempt))
            cf, of, lf = base + ".cases", base + ".out", base + ".log"
            with open(cf, "w") as f:
                for c in remaining:
                    cc = dict(c)
                    cc["timeout"] = int(cc.get("timeout", self.timeout)) * timeout_mult
                    f.write(case_line(cc) + "\n")
            env = dict(self.env)
            sanlog = base + ".san"
            for k in ("ASAN_OPTIONS", "UBSAN_OPTIONS", "TSAN_OPTIONS"):
                env[k] = env[k] + ":log_path=" + sanlog
            total_budget = sum(int(c.get("timeout", self.timeout)) for c in remaining) * timeout_mult + 60
            with open(lf, "w") as logf:
                try:
                    cmd = (list(self.exe) if isinstance(self.exe, (list, tuple)) else [self.exe]) + [cf, of]
                    p = subprocess.run(cmd, stdout=logf, stderr=subprocess.STDOUT, env=env,
                                       timeout=total_budget)
                    rc = p.returncode
                except subprocess.TimeoutExpired:
                    rc = -signal.SIGALRM
            begun, res, ticks = _parse_out(of)
            for cid, r in res.items():
                r["_status"] = "done"
                records[cid] = r
            # collect sanitizer logs (all pids)
            santext = ""
            d = os.path.dirname(sanlog)
            for fn in sorted(os.listdir(d)):
                if fn.startswith(os.path.basename(sanlog) + "."):
                    with open(os.path.join(d, fn), errors="replace") as f:
                        santext += f.read()
            with open(lf, errors="replace") as f:
                logtext = f.read()
            inflight = [b for b in begun if b not in res]
            if rc == 0 and not inflight:
                # TSan reports do not kill the process: attach them to the whole run
                if santext and "ThreadSanitizer" in santext:
                    for cid in res:
                        records[cid]["_tsan"] = santext
                        break
                remaining = [c for c in remaining if c["id"] not in records]
                if remaining:
                    # driver ended early without dying: harness failure
                    for c in remaining:
                        records[c["id"]] = {"_status": "harness", "_detail": "driver exited 0 without running case",
                                            "viol": [], "inconclusive": [], "nontrivial": False, "num": {},
                                            "str": {}, "tags": []}
                    remaining = []
                break
            # process died (or exited non-zero)
            if inflight:
                cid = inflight[-1]
                rec = {"viol": [], "inconclusive": [], "nontrivial": False, "num": {}, "str": {}, "tags": []}
                if cid in ticks:
                    rec["_status"] = "ticks"
                    rec["_site"] = ticks[cid][0]
                elif rc in (-signal.SIGALRM, 128 + signal.SIGALRM):
                    rec["_status"] = "timeout"
                else:
                    rec["_status"] = "death"
                    rec["_rc"] = rc
                    rec["_san"] = parse_sanitizer_log(santext + "\n" + logtext, self.repo)
                rec["_log"] = (santext + "\n----- stdout/stderr -----\n" + logtext[-6000:])[-20000:]
                records[cid] = rec
                idx = [c["id"] for c in remaining].index(cid)
                remaining = remaining[idx + 1:]
            else:
                # died outside any case
                for c in remaining:
                    if c["id"] not in records:
                        records[c["id"]] = {"_status": "harness", "_detail": "driver rc=%s outside a case: %s" % (rc, logtext[-500:]),
                                            "viol": [], "inconclusive": [], "nontrivial": False, "num": {}, "str": {},
                                            "tags": []}
                remaining = []
        return records

    def run(self):
        if self.per_process:
            shards = [[c] for c in self.cases]
        else:
            shards = [[] for _ in range(self.jobs)]
            for i, c in enumerate(self.cases):
                shards[i % self.jobs].append(c)
        records = {}
        with ThreadPoolExecutor(max_workers=self.jobs) as ex:
            for part in ex.map(lambda a: self._run_list(a[0], a[1]), list(enumerate(shards))):
                records.update(part)
        # timeouts: re-run once alone with 4x budget; only a second timeout is reported as a hang.
        # At most 3 re-runs per context (method), in parallel; the others stay inconclusive ("timeout").
        bycid = {c["id"]: c for c in self.cases}
        tos = [cid for cid, r in records.items() if r.get("_status") == "timeout"]
        perctx = {}
        chosen = []
        for cid in tos:
            ctx = bycid[cid].get("ctx") or bycid[cid].get("method") or "-"
            if perctx.get(ctx, 0) < 3:
                perctx[ctx] = perctx.get(ctx, 0) + 1
                chosen.append(cid)
        if chosen:
            with ThreadPoolExecutor(max_workers=min(16, len(chosen))) as ex:
                parts = list(ex.map(lambda a: self._run_list(1000 + a[0], [bycid[a[1]]], 4), list(enumerate(chosen))))
            for cid, again in zip(chosen, parts):
                r2 = again.get(cid)
                if r2 is None:
                    continue
                if r2.get("_status") == "timeout":
                    r2["_status"] = "hang"
                else:
                    r2["_retimed"] = True
                records[cid] = r2
        return records
