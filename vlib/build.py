"""Build cache for harness binaries.

Every object is keyed by sha256(preprocessed translation unit + flags), so a command always
rebuilds from the current working tree of $VERIF_REPO but an unchanged tree costs one -E pass.
"""
import hashlib
import os
import subprocess
import sys
import threading
import time
from concurrent.futures import ThreadPoolExecutor

VERIF = os.path.dirname(os.path.dirname(os.path.abspath(__file__)))
REPO = os.environ.get("VERIF_REPO", "/repo")
BUILD = os.path.join(VERIF, "build")
SYSINC = os.path.join(BUILD, "sysinc")

_lock = threading.Lock()


def _ensure_dirs():
    os.makedirs(os.path.join(BUILD, "obj"), exist_ok=True)
    os.makedirs(os.path.join(BUILD, "bin"), exist_ok=True)
    os.makedirs(SYSINC, exist_ok=True)
    link = os.path.join(SYSINC, "fmt")
    if not os.path.islink(link):
        try:
            os.symlink("/root/miniconda/include/fmt", link)
        except FileExistsError:
            pass


def includes():
    return ["-I", os.path.join(REPO, "include"), "-I", os.path.join(VERIF, "harness"),
            "-I", os.path.join(REPO, "src", "cli"),
            "-isystem", SYSINC, "-isystem", "/usr/include/eigen3"]


DEFS = ["-DFMT_HEADER_ONLY=1", "-DTAPKEE_USE_LGPL_COVERTREE", "-DTAPKEE_VERIF"]

SAN_COMMON = ["-O1", "-g", "-fno-omit-frame-pointer"]

VARIANTS = {
    # memory safety + value oracles; Eigen assertions on (TAPKEE_DEBUG), libstdc++ assertions on
    "asan": dict(cxx="clang++", std="-std=gnu++20",
                 flags=SAN_COMMON + ["-fsanitize=address,undefined",
                                     "-fno-sanitize-recover=all", "-D_GLIBCXX_ASSERTIONS", "-DTAPKEE_DEBUG",
                                     "-fopenmp"],
                 link=["-fsanitize=address,undefined", "-fopenmp", "-Wl,-z,muldefs", "-rdynamic"]),
    # race detection: clang + libomp (+ Archer OMPT tool)
    "tsan": dict(cxx="clang++", std="-std=gnu++20",
                 flags=["-O1", "-g", "-fno-omit-frame-pointer", "-fsanitize=thread", "-fopenmp"],
                 link=["-fsanitize=thread", "-fopenmp", "-Wl,-z,muldefs"]),
    # the repository's own configuration: gcc + libgomp, optimised, no assertions
    "prod": dict(cxx="g++", std="-std=gnu++23",
                 flags=["-O2", "-g1", "-DNDEBUG", "-fopenmp"],
                 link=["-fopenmp", "-Wl,-z,muldefs"]),
    # fast unsanitised clang build for heavy value oracles
    "plain": dict(cxx="clang++", std="-std=gnu++20",
                  flags=["-O2", "-g1", "-fopenmp"],
                  link=["-fopenmp", "-Wl,-z,muldefs"]),
}


def _run(cmd, **kw):
    return subprocess.run(cmd, stdout=subprocess.PIPE, stderr=subprocess.PIPE, **kw)


class BuildError(Exception):
    pass


def compile_obj(src, variant, extra=()):
    """Returns path of the object file for (src, variant, extra flags), compiling if needed."""
    _ensure_dirs()
    v = VARIANTS[variant]
    src = src if os.path.isabs(src) else os.path.join(VERIF, "harness", src)
    base = [v["cxx"], v["std"]] + v["flags"] + DEFS + list(extra) + includes()
    pre = _run(base + ["-E", "-P", src])
    if pre.returncode != 0:
        raise BuildError("preprocess failed: %s\n%s" % (src, pre.stderr.decode()[-4000:]))
    h = hashlib.sha256()
    h.update(pre.stdout)
    h.update(" ".join(base).encode())
    key = h.hexdigest()[:24]
    name = os.path.basename(src).replace(".cpp", "")
    obj = os.path.join(BUILD, "obj", "%s.%s.%s.o" % (name, variant, key))
    if os.path.exists(obj):
        return obj
    t0 = time.time()
    tmp = obj + ".tmp%d" % os.getpid()
    r = _run(base + ["-c", src, "-o", tmp])
    if r.returncode != 0:
        raise BuildError("compile failed: %s [%s]\n%s" % (src, variant, r.stderr.decode()[-6000:]))
    os.replace(tmp, obj)
    with _lock:
        sys.stderr.write("[build] %s (%s) %.0fs\n" % (os.path.basename(src), variant, time.time() - t0))
    return obj


class Target:
    """A binary = list of (source, extra flags) compiled in one variant and linked together."""

    def __init__(self, name, variant, sources, extra=(), libs=()):
        self.name = name
        self.variant = variant
        self.sources = list(sources)
        self.extra = tuple(extra)
        self.libs = tuple(libs)

    def key(self):
        return (self.name, self.variant, tuple(self.sources), self.extra)


def build_targets(targets, jobs=16):
    """Builds all targets (objects in parallel), returns {target.name: path}."""
    _ensure_dirs()
    uniq = {}

    def skey(t, s):
        # a source may be "file.cpp" (target-wide extra flags) or ("file.cpp", (flags,)) with its own
        if isinstance(s, (tuple, list)):
            return (s[0], t.variant, tuple(s[1]))
        return (s, t.variant, t.extra)

    for t in targets:
        for s in t.sources:
            uniq[skey(t, s)] = None
    with ThreadPoolExecutor(max_workers=jobs) as ex:
        futs = {k: ex.submit(compile_obj, k[0], k[1], k[2]) for k in uniq}
        for k, f in futs.items():
            uniq[k] = f.result()
    out = {}
    for t in targets:
        objs = [uniq[skey(t, s)] for s in t.sources]
        h = hashlib.sha256((" ".join(objs) + " ".join(t.libs)).encode()).hexdigest()[:16]
        exe = os.path.join(BUILD, "bin", "%s.%s.%s" % (t.name, t.variant, h))
        if not os.path.exists(exe):
            v = VARIANTS[t.variant]
            tmp = exe + ".tmp%d" % os.getpid()
            r = _run([v["cxx"]] + objs + v["link"] + list(t.libs) + ["-o", tmp])
            if r.returncode != 0:
                raise BuildError("link failed: %s\n%s" % (t.name, r.stderr.decode()[-4000:]))
            os.replace(tmp, exe)
        out[t.name] = exe
    return out


def gc(keep_seconds=6 * 3600):
    """Remove objects/binaries not touched recently (called by setup)."""
    now = time.time()
    for sub in ("obj", "bin"):
        d = os.path.join(BUILD, sub)
        if not os.path.isdir(d):
            continue
        for f in os.listdir(d):
            p = os.path.join(d, f)
            try:
                if now - os.stat(p).st_atime > keep_seconds and now - os.stat(p).st_mtime > keep_seconds:
                    os.remove(p)
            except OSError:
                pass
