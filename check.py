#!/usr/bin/env python3
"""Orchestrator: builds the monitor binaries from $VERIF_REPO's working tree, runs the
workload of one property under the monitors, matches violations against
known_findings.json, writes evidence/<ID>.json and prints VIOLATION / KNOWN-FINDING lines.

usage: check.py <ID> [--tier quick|thorough] [--replay FILE] [--jobs N] [--keep]
       check.py build-all
exit: 0 held on everything explored, 1 violation(s) not in known_findings.json, 2 harness failure
"""
import importlib
import json
import os
import re
import shutil
import sys
import time
import traceback

VERIF = os.path.dirname(os.path.abspath(__file__))
sys.path.insert(0, VERIF)

from vlib import build, runner  # noqa: E402

ALL_IDS = ["C%02d" % i for i in range(1, 21)]
# evidence of runs against a scratch copy of the repository (self-test) must not overwrite the real evidence
EVID = os.environ.get("VERIF_EVIDENCE") or (os.path.join(VERIF, "evidence") if os.path.realpath(build.REPO) == "/repo"
                                            else os.path.join(build.BUILD, "scratch_evidence"))


def load_known():
    p = os.path.join(VERIF, "known_findings.json")
    if not os.path.exists(p):
        return []
    with open(p) as f:
        return json.load(f)["findings"]


def match_known(known, pid, key):
    for k in known:
        if k.get("property") != pid or k.get("status") != "open":
            continue
        if re.search(k["match"], key):
            return k
    return None


def empty_rec():
    return {"viol": [], "inconclusive": [], "nontrivial": False, "num": {}, "str": {}, "tags": []}


class Run:
    def __init__(self, mod, tier, seed, jobs, keep=False):
        self.mod = mod
        self.pid = mod.ID
        self.tier = tier
        self.seed = seed
        self.jobs = jobs
        self.keep = keep
        self.workdir = os.path.join(build.BUILD, "run", "%s.%d" % (self.pid, os.getpid()))
        self.witdir = os.path.join(EVID, "witness", self.pid)
        self.records = []   # list of (stage, case, rec)
        self.violations = []  # list of dict(key, detail, stage, case, log)
        self.inconclusive = 0
        self.harness_failures = []

    def execute(self, stages):
        for st in stages:
            if not st["cases"]:
                continue
            r = runner.ShardRunner(st["exe"], st["cases"], os.path.join(self.workdir, st["name"]),
                                   env=st.get("env"), jobs=min(self.jobs, st.get("jobs", self.jobs)),
                                   timeout=st.get("timeout", 120), tag=st["name"], per_process=st.get("per_process", False))
            recs = r.run()
            for c in st["cases"]:
                rec = recs.get(c["id"])
                if rec is None:
                    rec = empty_rec()
                    rec["_status"] = "harness"
                    rec["_detail"] = "no record"
                self.records.append((st, c, rec))

    def collect(self):
        for st, c, rec in self.records:
            ctx = c.get("ctx") or c.get("method") or st["name"]
            status = rec.get("_status")
            if status == "harness":
                self.harness_failures.append("%s: %s" % (c["id"], rec.get("_detail")))
                continue
            if status == "death":
                san = rec["_san"]
                key = "%s|%s|%s|%s" % (self.pid, ctx, san["kind"], san["frame"])
                self.violations.append(dict(key=key, detail="process died rc=%s in %s (%s)" % (
                    rec.get("_rc"), san["frame"], san["file"]), stage=st, case=c, log=rec.get("_log", "")))
            elif status == "ticks":
                key = "%s|%s|nontermination|%s" % (self.pid, ctx, rec["_site"])
                self.violations.append(dict(key=key, detail="tick budget exhausted at %s" % rec["_site"],
                                            stage=st, case=c, log=rec.get("_log", "")))
            elif status == "hang":
                key = "%s|%s|hang|watchdog" % (self.pid, ctx)
                self.violations.append(dict(key=key, detail="watchdog fired twice (second time with 4x budget)",
                                            stage=st, case=c, log=rec.get("_log", "")))
            elif status == "timeout":
                self.inconclusive += 1
            for v in rec.get("viol", []):
                if v["key"].startswith("harness|"):
                    self.harness_failures.append("%s: %s %s" % (c["id"], v["key"], v["detail"][-300:]))
                    continue
                key = "%s|%s|%s" % (self.pid, ctx, v["key"])
                self.violations.append(dict(key=key, detail=v["detail"], stage=st, case=c, log=""))
            if rec.get("inconclusive"):
                self.inconclusive += 1
            if rec.get("_tsan"):
                for key, detail in tsan_reports(rec["_tsan"], build.REPO):
                    self.violations.append(dict(key="%s|%s|%s" % (self.pid, ctx, key), detail=detail, stage=st, case=c,
                                                log=rec["_tsan"][-20000:]))

    def finish(self, t0):
        known = load_known()
        post = getattr(self.mod, "post", None)
        if post:
            for v in post(self.records) or []:
                self.violations.append(dict(key="%s|%s" % (self.pid, v["key"]), detail=v["detail"],
                                            stage=v.get("stage", {"name": "post"}), case=v.get("case", {"id": "post"}),
                                            log=""))
        unknown, knownhits = [], {}
        for v in self.violations:
            k = match_known(known, self.pid, v["key"])
            if k:
                knownhits.setdefault(k["match"], (k, []))[1].append(v)
            else:
                unknown.append(v)
        # witnesses for unknown violations (first 10 distinct keys)
        lines = []
        seen = set()
        if unknown:
            os.makedirs(self.witdir, exist_ok=True)
        for v in unknown:
            if v["key"] in seen:
                continue
            seen.add(v["key"])
            if len(seen) > 10:
                break
            safe = re.sub(r"[^A-Za-z0-9_.-]", "_", str(v["case"].get("id", "post")))[:80]
            wp = os.path.join(self.witdir, "%s.%s.case" % (self.tier, safe))
            with open(wp, "w") as f:
                f.write("# stage=%s\n# key=%s\n# detail=%s\n" % (v["stage"]["name"], v["key"], v["detail"].replace("\n", " ")))
                f.write(runner.case_line(v["case"]) + "\n")
            if v.get("log"):
                with open(wp[:-5] + ".log", "w") as f:
                    f.write(v["log"])
            lines.append("VIOLATION property=%s replay=%s key=%s :: %s" % (self.pid, wp, v["key"], v["detail"][:300]))
        for m, (k, vs) in knownhits.items():
            print("KNOWN-FINDING: property=%s %s [%d occurrence(s) this run, e.g. %s]" % (
                self.pid, k["what"], len(vs), vs[0]["key"]))
        for ln in lines:
            print(ln)
        ev = self.evidence(t0, unknown, knownhits)
        n_eval = ev["coverage"]["evaluations"]
        if self.harness_failures:
            print("HARNESS-FAILURE %s: %d case(s): %s" % (self.pid, len(self.harness_failures), self.harness_failures[:3]))
        ok_evidence = n_eval >= 1 and ev["coverage"]["distinct_nontrivial"] >= 2
        os.makedirs(EVID, exist_ok=True)
        with open(os.path.join(EVID, "%s.json" % self.pid), "w") as f:
            json.dump(ev, f, indent=1, sort_keys=True)
        if not self.keep:
            shutil.rmtree(self.workdir, ignore_errors=True)
        print("%s tier=%s seed=%d: %d cases, %d nontrivial-distinct, %d violation(s) (%d unknown key(s)), "
              "%d known-finding key(s), %d inconclusive, %.0fs" % (
                  self.pid, self.tier, self.seed, n_eval, ev["coverage"]["distinct_nontrivial"], len(self.violations),
                  len(seen), len(knownhits), self.inconclusive, time.time() - t0))
        if unknown:
            return 1
        if self.harness_failures or not ok_evidence:
            if not ok_evidence:
                print("HARNESS-FAILURE %s: no non-trivial executions observed" % self.pid)
            return 2
        return 0

    def evidence(self, t0, unknown, knownhits):
        recs = [(st, c, r) for st, c, r in self.records if r.get("_status") != "harness"]
        cov = self.mod.coverage(recs, self.tier)
        cov.setdefault("evaluations", len(recs))
        if "distinct_nontrivial" not in cov:
            sigs = set()
            for st, c, r in recs:
                if r.get("nontrivial"):
                    sigs.add(tuple(sorted((k, str(v)) for k, v in c.items() if k not in ("id", "timeout", "ticks"))))
            cov["distinct_nontrivial"] = len(sigs)
        if "samples" not in cov:
            cov["samples"] = [runner.case_line(c) for st, c, r in recs[:: max(1, len(recs) // 5)][:5]]
        cov["outcomes"] = {}
        for st, c, r in recs:
            s = r.get("_status", "done")
            cov["outcomes"][s] = cov["outcomes"].get(s, 0) + 1
        cov["inconclusive"] = self.inconclusive
        cov["known_finding_occurrences"] = {m: len(vs) for m, (k, vs) in knownhits.items()}
        cov["unknown_violation_keys"] = sorted(set(v["key"] for v in unknown))[:20]
        return {
            "property_id": self.pid,
            "tier": self.tier,
            "seed": self.seed,
            "level": getattr(self.mod, "LEVEL", "exploration"),
            "coverage": cov,
            "assumptions": list(getattr(self.mod, "ASSUMPTIONS", [])),
            "wall_s": round(time.time() - t0, 1),
            "violations": len(unknown),
            "repo": build.REPO,
        }


TSAN_FRAME_RE = re.compile(r"^\s*#(\d+) (.+?) (/[^\s:]+):(\d+)(?::\d+)? \(")
TSAN_BLOCK_RE = re.compile(r"WARNING: ThreadSanitizer: (.+?) \(pid=\d+\)(.*?)(?=\n={18}|\Z)", re.S)


def tsan_reports(text, repo):
    """Yields (key, detail) for TSan reports that have a frame in the repository sources."""
    out = []
    seen = set()
    inc = os.path.join(repo, "include")
    cli = os.path.join(repo, "src")
    for m in TSAN_BLOCK_RE.finditer(text):
        kind = m.group(1).strip().replace(" ", "-")
        frames = []
        for line in m.group(2).splitlines():
            fm = runner.FRAME_RE.match(line) or TSAN_FRAME_RE.match(line)
            if fm:
                path = os.path.normpath(fm.group(3))
                if path.startswith(inc) or path.startswith(cli):
                    frames.append(runner.repo_frame_name(fm.group(2), path, fm.group(4)))
        if not frames:
            continue
        inner = sorted(set(frames[:1] + [f for f in frames if f != frames[0]][:1]))
        key = "tsan:%s|%s" % (kind, "+".join(inner))
        if key in seen:
            continue
        seen.add(key)
        out.append((key, "ThreadSanitizer %s with repository frames %s" % (kind, frames[:4])))
    return out


def run_property(pid, tier, seed, jobs, replay=None, keep=False):
    mod = importlib.import_module("props.%s" % pid.lower())
    t0 = time.time()
    try:
        targets = mod.targets(tier)
        bins = build.build_targets(targets, jobs=16)
    except build.BuildError as e:
        print("HARNESS-FAILURE %s: build: %s" % (pid, str(e)[-3000:]))
        return 2
    run = Run(mod, tier, seed, jobs, keep)
    if replay:
        stage_name, case = None, None
        with open(replay) as f:
            for line in f:
                if line.startswith("# stage="):
                    stage_name = line.strip().split("=", 1)[1]
                elif not line.startswith("#") and line.strip():
                    case = dict(tok.split("=", 1) if "=" in tok else (tok, "1") for tok in line.split())
        stages = mod.stages(tier, seed, bins)
        st = [s for s in stages if s["name"] == stage_name]
        if not st or case is None:
            print("HARNESS-FAILURE %s: cannot replay %s" % (pid, replay))
            return 2
        st = dict(st[0])
        st["cases"] = [case]
        run.keep = True
        run.execute([st])
        run.collect()
        for v in run.violations:
            print("REPLAY-VIOLATION %s :: %s" % (v["key"], v["detail"]))
            if v.get("log"):
                print(v["log"][-3000:])
        print("replay: %d violation(s)" % len(run.violations))
        known = load_known()
        unknown = [v for v in run.violations if not match_known(known, pid, v["key"])]
        for v in unknown[:1]:
            print("VIOLATION property=%s replay=%s" % (pid, replay))
        return 1 if unknown else 0
    stages = mod.stages(tier, seed, bins)
    run.execute(stages)
    run.collect()
    return run.finish(t0)


def main(argv):
    if len(argv) < 2:
        print(__doc__)
        return 2
    cmd = argv[1]
    tier = os.environ.get("VERIF_TIER", "quick")
    seed = int(os.environ.get("VERIF_SEED", "1"))
    jobs = 16
    replay = None
    keep = False
    i = 2
    while i < len(argv):
        if argv[i] == "--tier":
            tier = argv[i + 1]
            i += 2
        elif argv[i] == "--replay":
            replay = argv[i + 1]
            i += 2
        elif argv[i] == "--jobs":
            jobs = int(argv[i + 1])
            i += 2
        elif argv[i] == "--keep":
            keep = True
            i += 1
        else:
            print("unknown argument", argv[i])
            return 2
    if cmd == "build-all":
        targets = []
        for pid in ALL_IDS:
            try:
                mod = importlib.import_module("props.%s" % pid.lower())
            except ImportError:
                continue
            targets += mod.targets("quick")
        try:
            build.build_targets(targets, jobs=16)
        except build.BuildError as e:
            print("build failed:", str(e)[-3000:])
            return 2
        print("built %d targets" % len(targets))
        return 0
    pid = cmd.upper()
    try:
        return run_property(pid, tier, seed, jobs, replay, keep)
    except Exception:
        traceback.print_exc()
        print("HARNESS-FAILURE %s: orchestrator exception" % pid)
        return 2


if __name__ == "__main__":
    sys.exit(main(sys.argv))
